#!/bin/sh
# time_sets.sh <Cxx> <harness> <tier> <timeout> : development aid, times each parameter set of a harness
P=$1; HN=$2; T=$3; TO=$4
N=$(cd /verif && .venv/bin/python -c "
import sys; sys.path.insert(0,'/verif'); sys.path.insert(0,'/repo')
import warnings; warnings.simplefilter('ignore')
from symv import runner
m=runner._load('$P'); h=runner._find(m,'$HN'); print(len(h.$T))")
i=0
while [ $i -lt $N ]; do
  s=$(date +%s); VERIF_OUT=/tmp/ts_out VERIF_INDEX=$i timeout $TO /verif/vcheck $P --tier $T --only $HN > /tmp/ts.$i.log 2>&1; rc=$?
  echo "#$i rc=$rc $(( $(date +%s)-s ))s $(tail -1 /tmp/ts.$i.log | cut -c1-220)"
  i=$((i+1))
done
