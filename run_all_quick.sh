#!/bin/sh
# runs every registered quick (or $1=thorough) check in sequence; logs under /tmp/allq/
T=${1:-quick}; mkdir -p /tmp/allq
for p in $(.venv/bin/python -c "import json;print(' '.join(c['property_id'] for c in json.load(open('MANIFEST.json'))['checks']))"); do
  s=$(date +%s); ./vcheck $p --tier $T > /tmp/allq/$p.$T.log 2>&1; rc=$?; e=$(date +%s)
  echo "$p $T exit=$rc wall=$((e-s))s $(tail -1 /tmp/allq/$p.$T.log | cut -c1-200)"
done
