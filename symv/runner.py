"""Runs the harnesses of one property: parallel path exploration, witness
validation and counterexample replay on the real code, evidence, exit code."""
from __future__ import annotations

import hashlib
import importlib
import json
import os
import sys
import time
import traceback
from collections import Counter, deque
from concurrent.futures import FIRST_COMPLETED, ProcessPoolExecutor, wait
from dataclasses import dataclass, field
import multiprocessing as mp

ROOT = os.path.dirname(os.path.dirname(os.path.abspath(__file__)))
OUT = os.environ.get("VERIF_OUT") or ROOT  # evidence/ and replays/ go here (redirected only by the mutant-testing scripts)
NPROC = int(os.environ.get("VERIF_NPROC", "16"))


@dataclass
class H:
    """One harness: a function `fn(c, **params)` explored for every params set of the tier."""

    name: str
    fn: object
    quick: list
    thorough: list
    functions: list = field(default_factory=list)
    bounds: str = ""
    opts: dict = field(default_factory=dict)
    validate: bool = True
    expect_outside: bool = False  # paths may legitimately leave the modelled fragment
    replay_outside: bool = False  # a path that leaves the modelled fragment (e.g. a division by zero, which numpy turns into NaN instead of raising) is replayed concretely on the real code with its witness; a concrete failure is a violation
    kind: str = "E1"


@dataclass
class Direct:
    """A check that issues its solver queries directly (E2 regular-language
    queries, closed NRA identities): fn(tier) -> list of dict(name,status,detail,solver_s,sample)."""

    name: str
    fn: object
    functions: list = field(default_factory=list)
    bounds: str = ""
    kind: str = "E2"


# --------------------------------------------------------------------------- worker side

_MOD = None


def _load(pid):
    global _MOD
    sys.set_int_max_str_digits(0)
    if _MOD is None or _MOD.__name__ != f"symv.harness.{pid}":
        import warnings

        warnings.simplefilter("ignore")
        from . import symnp
        import swcgeom  # noqa: F401  (the real code, from /repo)
        import swcgeom.analysis, swcgeom.transforms  # noqa: F401,E401

        _MOD = importlib.import_module(f"symv.harness.{pid}")
        symnp.install()
    return _MOD


def _find(mod, hname):
    for h in mod.HARNESSES:
        if h.name == hname:
            return h
    raise KeyError(hname)


def _opts(h, tier):
    from . import engine as E

    o = E.Options()
    if tier == "thorough":
        o.oblig_timeout_ms = 180000
        o.branch_timeout_ms = 10000
        o.crosscheck_mod = int(os.environ.get("VERIF_XCHECK_MOD", "50"))
        o.crosscheck_seed = int(os.environ.get("VERIF_SEED", "0"))
    for k, v in h.opts.items():
        if isinstance(v, dict):
            v = v.get(tier)
            if v is None:
                continue
        setattr(o, k, v)
    return o


def _summarise(res, h, params, validate):
    """PathResult -> picklable dict, with witness validation / cex replay done here."""
    from . import api
    from . import engine as E

    d = dict(status=res.status, decisions=res.decisions, queries=res.queries, solver_s=res.solver_s,
             message=res.message, notes=res.notes, unknown_branches=res.unknown_branches,
             obligations=[], violations=[], unknown=[], validated=0, validation_mismatch=None,
             witness=res.witness, outputs=res.outputs, discrete={})
    for o in res.obligations:
        d["obligations"].append((o.name, o.status))
        if o.status == "violated":
            d["violations"].append(dict(obligation=o.name, detail=o.detail, model=o.model))
        elif o.status == "unknown":
            d["unknown"].append(dict(obligation=o.name, detail=o.detail))
    # replay every candidate counterexample on the real code
    for v in d["violations"]:
        v["replay"] = _replay(h, params, v["model"], v["obligation"])
    if res.status == "outside" and h.replay_outside and res.witness is not None:
        st, cc, exc = api.run_concrete(h.fn, params, res.witness)
        bad = [o for o in cc.obligations if o.status != "discharged"] if st == "ok" else []
        if st == "exception":
            d["violations"].append(dict(obligation="no-exception", detail=f"input outside the modelled fragment ({res.message[:60]}), replayed on the real code: raised " + repr(exc)[:200], model=res.witness,
                                        replay=dict(reproduced=True, why="real code raised " + repr(exc)[:300])))
        elif bad:
            d["violations"].append(dict(obligation=bad[0].name, detail=f"input outside the modelled fragment ({res.message[:60]}), replayed on the real code: " + bad[0].detail[:200], model=res.witness,
                                        replay=dict(reproduced=True, why=bad[0].detail[:300])))
        elif st == "ok":
            d["validated"] = 1
    if res.status == "ok" and validate and res.witness is not None and not d["violations"]:
        st, cc, exc = api.run_concrete(h.fn, params, res.witness)
        nice = getattr(res, "witness_nice", False)
        if st == "ok":
            bad = [o for o in cc.obligations if o.status != "discharged"]
            d["validated"] = 1
            if bad and nice:
                # the solver's witness of this path, replayed on the real code without any stub, breaks the obligation concretely:
                # that is a reproduced counterexample (the symbolic run only missed it because the failing code sits behind a stub)
                d["violations"].append(dict(obligation=bad[0].name, detail="path witness replayed on the unstubbed real code: " + bad[0].detail[:300], model=res.witness,
                                            replay=dict(reproduced=True, why="path witness replayed on the unstubbed real code: " + bad[0].detail[:300])))
            elif bad:
                d["validated"] = 0  # ill-conditioned witness (knife-edge values): float replay is not meaningful
        elif st == "exception" and nice:
            d["violations"].append(dict(obligation="no-exception", detail="path witness replayed on the unstubbed real code raised " + repr(exc)[:300], model=res.witness,
                                        replay=dict(reproduced=True, why="real code raised " + repr(exc)[:300])))
        elif st == "abort":
            d["validated"] = 0  # knife-edge witness (assumption fails in float arithmetic)
    return d


def _replay(h, params, model, obligation):
    from . import api

    if model is None:
        return dict(reproduced=False, why="no model")
    st, cc, exc = api.run_concrete(h.fn, params, model, tight=True)
    if st == "exception":
        return dict(reproduced=True, why="real code raised " + repr(exc)[:300])
    if st != "ok":
        return dict(reproduced=False, why=f"concrete run ended with status {st}")
    failed = [o for o in cc.obligations if o.status != "discharged"]
    names = [o.name for o in failed]
    if obligation in names:
        o = failed[names.index(obligation)]
        return dict(reproduced=True, why=o.detail[:300])
    if failed:
        return dict(reproduced=True, why=f"obligation {failed[0].name} fails concretely: {failed[0].detail[:200]}", other=failed[0].name)
    return dict(reproduced=False, why="all obligations hold concretely")


class _PathTimeout(BaseException):
    pass


class _alarm:
    def __init__(self, seconds):
        self.s = seconds

    def __enter__(self):
        import signal

        def hdl(signum, frame):
            raise _PathTimeout()

        self.old = signal.signal(signal.SIGALRM, hdl)
        signal.alarm(int(self.s))

    def __exit__(self, *a):
        import signal

        signal.alarm(0)
        signal.signal(signal.SIGALRM, self.old)
        return False


def _work(pid, tier, hname, pi, prefix, max_paths, budget_s):
    from . import engine as E

    mod = _load(pid)
    h = _find(mod, hname)
    params = (h.quick if tier == "quick" else h.thorough)[pi]
    opts = _opts(h, tier)
    out = []
    stack = [prefix]
    t0 = time.time()
    n = 0
    while stack and n < max_paths and time.time() - t0 < budget_s:
        p = stack.pop()
        try:
            with _alarm(opts.path_timeout_s):
                res = E.run_path(h.fn, params, p, opts)
        except _PathTimeout:
            E._CTX = None
            out.append(dict(status="inconclusive", message=f"path did not finish within {opts.path_timeout_s}s (non-terminating loop?)", decisions=len(p), queries=0, solver_s=0,
                            obligations=[], violations=[], unknown=[], validated=0, validation_mismatch=None, notes=[], witness=None, outputs=None, unknown_branches=0))
            n += 1
            continue
        except E.HarnessError as e:
            out.append(dict(status="harness_error", message=str(e) + "\n" + traceback.format_exc()[-1500:], decisions=len(p), queries=0, solver_s=0,
                            obligations=[], violations=[], unknown=[], validated=0, validation_mismatch=None, notes=[], witness=None, outputs=None,
                            prefix=[(d.kind, d.payload, d.choice) for d in p]))
            n += 1
            continue
        except Exception as e:  # noqa: BLE001 - the code under test raised on this path
            c = E._CTX
            E._CTX = None
            out.append(_exception_path(h, params, p, e, opts))
            n += 1
            continue
        n += 1
        out.append(_summarise(res, h, params, h.validate))
        stack.extend(E.successors(res.trace, len(p)))
    return out, stack


def _exception_path(h, params, prefix, exc, opts):
    """The real code raised under symbolic execution: find a witness of the path
    and see whether the real code raises concretely too."""
    from . import api
    from . import engine as E

    tb = traceback.format_exc()[-2000:]
    d = dict(status="exception", message=repr(exc)[:300] + "\n" + tb, decisions=len(prefix), queries=0, solver_s=0,
             obligations=[], violations=[], unknown=[], validated=0, validation_mismatch=None, notes=[], witness=None, outputs=None)
    # re-run up to the exception to recover the path condition
    c = E.SymCtx(prefix, opts, params)
    E._CTX = c
    try:
        h.fn(c, **params)
    except BaseException:  # noqa: BLE001
        pass
    finally:
        E._CTX = None
    import z3

    if c._check(timeout_ms=opts.oblig_timeout_ms) == z3.sat:
        model = c.model_dict(c.solver.model())
        d["witness"] = model
        st, cc, cexc = api.run_concrete(h.fn, params, model)
        if st == "exception":
            d["violations"].append(dict(obligation="no-exception", detail="real code raised " + repr(cexc)[:300], model=model,
                                        replay=dict(reproduced=True, why=repr(cexc)[:300])))
        elif st == "ok" and any(o.status != "discharged" for o in cc.obligations):
            o = [o for o in cc.obligations if o.status != "discharged"][0]
            d["violations"].append(dict(obligation=o.name, detail=o.detail[:300], model=model, replay=dict(reproduced=True, why=o.detail[:300])))
        else:
            d["status"] = "harness_error"
            d["message"] = "exception under symbolic execution does not reproduce concretely: " + d["message"]
    else:
        d["status"] = "abort"
    return d


# --------------------------------------------------------------------------- driver


def _known_findings():
    p = os.path.join(ROOT, "known_findings.json")
    if not os.path.exists(p):
        return []
    return json.load(open(p)).get("findings", [])


def _matches(f, pid, hname, params, v):
    if f.get("status") != "open" or f.get("property") != pid:
        return False
    if f.get("harness") not in (None, hname):
        return False
    if f.get("obligation") not in (None, v["obligation"]):
        return False
    model = dict(v.get("model") or {})
    model.update({f"param.{k}": val for k, val in params.items()})
    for k, want in (f.get("where") or {}).items():
        if model.get(k) != want:
            return False
    return True


def run_property(pid: str, tier: str, only=None, verbose=False) -> int:
    t_start = time.time()
    seed = int(os.environ.get("VERIF_SEED", "0"))
    sys.path.insert(0, ROOT)
    ctx = mp.get_context("fork")
    mod_spec = importlib.util.find_spec(f"symv.harness.{pid}")
    if mod_spec is None:
        print(f"no harness module for {pid}")
        return 3
    # the parent imports the module only to read the harness table (no solver use)
    mod = _load(pid)
    harnesses = [h for h in mod.HARNESSES if only is None or h.name in only]
    stats = {}
    violations, unknowns, herrors, mismatches, known = [], [], [], [], []
    samples = []
    budget = getattr(mod, "BUDGET_S", {}).get(tier, 1500 if tier == "quick" else 7200)
    inconclusive_reasons = []

    direct_results = []
    with ProcessPoolExecutor(max_workers=NPROC, mp_context=ctx) as pool:
        pending = {}
        queue = deque()
        for h in harnesses:
            if isinstance(h, Direct):
                fut = pool.submit(_run_direct, pid, h.name, tier)
                pending[fut] = ("direct", h.name, None)
                continue
            plist = h.quick if tier == "quick" else h.thorough
            flt = os.environ.get("VERIF_FILTER")  # development aid: run only the parameter sets whose repr contains this text
            for pi in range(len(plist)):
                if flt and flt not in repr(plist[pi]):
                    continue
                if os.environ.get("VERIF_INDEX") and int(os.environ["VERIF_INDEX"]) != pi:
                    continue
                queue.append((h.name, pi, []))
                stats[(h.name, pi)] = Counter()
        # serialise prefixes as tuples
        def submit():
            while queue and len(pending) < 3 * NPROC:
                hname, pi, prefix = queue.popleft()
                fut = pool.submit(_work_ser, pid, tier, hname, pi, prefix, 12, 20.0)
                pending[fut] = ("e1", hname, pi)

        submit()
        timed_out = False
        while pending:
            done, _ = wait(list(pending), return_when=FIRST_COMPLETED, timeout=5)
            if time.time() - t_start > budget:
                timed_out = True
                for f in pending:
                    f.cancel()
                break
            for fut in done:
                kind, hname, pi = pending.pop(fut)
                try:
                    r = fut.result()
                except Exception as e:  # noqa: BLE001
                    herrors.append(dict(harness=hname, message="worker crashed: " + repr(e) + traceback.format_exc()[-800:]))
                    continue
                if kind == "direct":
                    direct_results.extend((hname, x) for x in r)
                    continue
                outs, left = r
                for prefix in left:
                    queue.append((hname, pi, prefix))
                st = stats[(hname, pi)]
                h = _find(mod, hname)
                params = (h.quick if tier == "quick" else h.thorough)[pi]
                for d in outs:
                    st["paths_" + d["status"]] += 1
                    st["decisions"] += d["decisions"]
                    st["queries"] += d["queries"]
                    st["solver_ms"] += int(d["solver_s"] * 1000)
                    st["obligations"] += len(d["obligations"])
                    st["discharged"] += sum(1 for _, s in d["obligations"] if s == "discharged")
                    st["validated"] += d["validated"]
                    for n in d["notes"]:
                        if n.startswith("reach:"):
                            st[n] += 1
                        if n == "feasibility-unknown":
                            st["paths_ok_feasibility_unknown"] += 1
                        if n.startswith("xcheck:"):
                            a_, b_, c_, d_ = (int(v) for v in n.split(":")[1:])
                            st["xcheck_checked"] += a_
                            st["xcheck_agree"] += b_
                            st["xcheck_unknown"] += c_
                            st["xcheck_disagree"] += d_
                        if n.startswith("cvc5-disagrees:"):
                            herrors.append(dict(harness=hname, params=params, message="cvc5 returns sat on an obligation z3 discharged: " + n[15:]))
                    if d["status"] == "harness_error":
                        herrors.append(dict(harness=hname, params=params, message=d["message"]))
                    if d["status"] == "inconclusive":
                        inconclusive_reasons.append(f"{hname}{params}: {d['message']}")
                    if d["status"] == "outside" and not h.expect_outside:
                        st["outside_unexpected"] += 1
                        st["outside:" + d["message"][:60]] += 1
                    elif d["status"] == "outside":
                        st["outside:" + d["message"][:60]] += 1
                    if d["validation_mismatch"]:
                        mismatches.append(dict(harness=hname, params=params, **d["validation_mismatch"]))
                    for v in d["violations"]:
                        v = dict(v, harness=hname, params=params)
                        kf = [f for f in _known_findings() if _matches(f, pid, hname, params, v)]
                        if kf:
                            known.append((kf[0], v))
                        else:
                            violations.append(v)
                    for u in d["unknown"]:
                        unknowns.append(dict(u, harness=hname, params=params))
                    if d["status"] == "ok" and len(samples) < 6 and d["witness"] is not None and (len(samples) < 2 or hash(str(d["witness"])) % 7 == seed % 7):
                        samples.append(dict(harness=hname, params=_js(params), witness=d["witness"], outputs=d["outputs"],
                                            obligations=[n for n, _ in d["obligations"]][:12]))
            if sum(1 for v in violations if v["replay"].get("reproduced")) >= 10:
                # enough reproduced counterexamples: stop exploring (the verdict is already "violated")
                queue.clear()
                for f in list(pending):
                    f.cancel()
                pending = {f: v for f, v in pending.items() if not f.cancelled()}
            submit()
        if timed_out:
            inconclusive_reasons.append(f"time budget of {budget}s exhausted with {len(queue) + len(pending)} subtrees unexplored")
            pool.shutdown(wait=False, cancel_futures=True)

    # ---------------------------------------------------------------- verdict
    wall = time.time() - t_start
    total = Counter()
    per_h = {}
    for (hname, pi), st in stats.items():
        total.update({k: v for k, v in st.items() if not k.startswith(("reach:", "outside:"))})
        per_h[f"{hname}#{pi}"] = dict(st)
    d_obl = len(direct_results)
    d_dis = sum(1 for _, x in direct_results if x["status"] == "discharged")
    for hname, x in direct_results:
        if x["status"] == "violated":
            v = dict(obligation=x["name"], detail=x.get("detail", ""), model=x.get("model"), harness=hname, params={},
                     replay=x.get("replay", dict(reproduced=False, why="no replay")))
            kf = [f for f in _known_findings() if _matches(f, pid, hname, {}, v)]
            (known.append((kf[0], v)) if kf else violations.append(v))
        elif x["status"] == "unknown":
            unknowns.append(dict(obligation=x["name"], detail=x.get("detail", ""), harness=hname, params={}))
        elif x["status"] == "harness_error":
            herrors.append(dict(harness=hname, message=x.get("detail", "")))
        if x.get("sample") is not None and len(samples) < 10:
            samples.append(dict(harness=hname, obligation=x["name"], sample=x["sample"]))

    # reachability twins declared by the module
    missing_reach = []
    for hname, names in getattr(mod, "REACH", {}).items():
        if only is not None and hname not in only:
            continue
        for n in names:
            if not any(st.get("reach:" + n) for (hn, _), st in stats.items() if hn == hname):
                missing_reach.append(f"{hname}:{n}")
    # vacuity: every E1 harness must have explored at least one complete path
    for h in harnesses:
        if isinstance(h, Direct):
            continue
        if not any(st.get("paths_ok") for (hn, _), st in stats.items() if hn == h.name):
            if not any(v["harness"] == h.name for v in violations) and not any(v["harness"] == h.name for _, v in known):
                missing_reach.append(f"{h.name}:no complete path")

    reproduced = [v for v in violations if v["replay"].get("reproduced")]
    unreproduced = [v for v in violations if not v["replay"].get("reproduced")]

    os.makedirs(os.path.join(OUT, "replays", pid), exist_ok=True)
    for kf, v in known:
        pass
    printed = set()
    for kf, v in known:
        key = kf.get("id", kf.get("what"))
        if key not in printed:
            print(f"KNOWN-FINDING: property={pid} {kf.get('what')}")
            printed.add(key)
    vio_lines = []
    for v in reproduced[:20]:
        blob = json.dumps(dict(property=pid, harness=v["harness"], params=_js(v["params"]), obligation=v["obligation"], model=v["model"],
                               detail=v["detail"], replay=v["replay"], tier=tier), indent=1, default=str)
        hsh = hashlib.sha1(blob.encode()).hexdigest()[:10]
        path = os.path.join(OUT, "replays", pid, f"{v['harness']}-{v['obligation'].replace('/', '_')}-{hsh}.json")
        with open(path, "w") as f:
            f.write(blob)
        vio_lines.append(f"VIOLATION property={pid} replay={path}")
        print(vio_lines[-1])
        print(f"  harness={v['harness']} params={_js(v['params'])} obligation={v['obligation']}: {v['replay'].get('why', '')[:300]}")

    code = 0
    if reproduced:
        code = 1
    elif herrors or unreproduced or mismatches or missing_reach:
        code = 3
    elif unknowns or inconclusive_reasons or total.get("outside_unexpected"):
        code = 2

    states = int(total.get("paths_ok", 0)) + d_obl
    evidence = {
        "property_id": pid,
        "tier": tier,
        "seed": seed,
        "level": "model_checking",
        "coverage": {
            "states": max(states, 0),
            "transitions": int(total.get("decisions", 0)) + sum(1 for _ in direct_results),
            "traces_validated_against_impl": int(total.get("validated", 0)),
            "samples": samples or [{"note": "no complete path"}],
            "obligations": int(total.get("obligations", 0)) + d_obl,
            "discharged": int(total.get("discharged", 0)) + d_dis,
            "exhaustive": bool(code == 0),
            "explanation": "states = symbolic paths explored to completion (each stands for the set of all inputs taking the same branch decisions) plus directly issued solver queries; transitions = branch/concretisation decisions taken on them; obligations = SMT queries pc & not(phi), all must be unsat; exhaustive = every feasible path within the stated bounds was explored and every obligation discharged",
            "paths": {k: int(v) for k, v in total.items() if k.startswith("paths_")},
            "queries": int(total.get("queries", 0)),
            "solver_s": round(total.get("solver_ms", 0) / 1000.0, 2),
            "functions_encoded": sorted({f for h in harnesses for f in h.functions}),
            "bounds": {h.name: h.bounds for h in harnesses},
            "per_harness": per_h,
            "direct_queries": [dict(harness=hn, name=x["name"], status=x["status"], solver_s=round(x.get("solver_s", 0), 3)) for hn, x in direct_results][:400],
            "inconclusive": inconclusive_reasons[:20] + [f"{u['harness']}:{u['obligation']} unknown {u['detail'][:80]}" for u in unknowns[:20]],
            "harness_errors": [e["message"][:400] for e in herrors[:10]] + [f"unreproduced cex {v['harness']}:{v['obligation']} {v['replay'].get('why')}" for v in unreproduced[:10]]
            + [f"witness validation mismatch {m['harness']} {m.get('obligation', '')} {m['detail'][:200]}" for m in mismatches[:10]] + [f"reachability twin not met: {m}" for m in missing_reach],
            "known_findings": sorted(printed),
            "cvc5_crosscheck": {k[7:]: int(v) for k, v in total.items() if k.startswith("xcheck_")},
            "stubs": getattr(mod, "STUBS", []),
            "outside_claim": getattr(mod, "OUTSIDE", []),
            "exit_code": code,
            "source_tree": os.path.dirname(os.path.dirname(os.path.abspath(sys.modules["swcgeom"].__file__))),
        },
        "assumptions": getattr(mod, "ASSUMPTIONS", []),
        "wall_s": round(wall, 2),
        "violations": len(reproduced),
    }
    os.makedirs(os.path.join(OUT, "evidence"), exist_ok=True)
    with open(os.path.join(OUT, "evidence", f"{pid}.json"), "w") as f:
        json.dump(evidence, f, indent=1, default=str)

    print(f"[{pid} {tier}] paths={dict((k, v) for k, v in total.items() if k.startswith('paths_'))} obligations={evidence['coverage']['obligations']} "
          f"discharged={evidence['coverage']['discharged']} validated={total.get('validated', 0)} queries={total.get('queries', 0)} solver_s={evidence['coverage']['solver_s']} wall={wall:.1f}s exit={code}")
    if code in (2, 3) or verbose:
        for e in herrors[:5]:
            print("HARNESS-ERROR", e.get("harness"), e.get("params"), e["message"][:1500])
        for v in unreproduced[:5]:
            print("UNREPRODUCED-CEX", v["harness"], _js(v["params"]), v["obligation"], v["model"], v["replay"])
        for m in mismatches[:5]:
            print("VALIDATION-MISMATCH", m)
        for u in unknowns[:8]:
            print("UNKNOWN", u["harness"], _js(u["params"]), u["obligation"], u["detail"][:200])
        for r in inconclusive_reasons[:8]:
            print("INCONCLUSIVE", r)
        for m in missing_reach:
            print("REACHABILITY-TWIN-NOT-MET", m)
        for (hname, pi), st in stats.items():
            o = {k: v for k, v in st.items() if k.startswith("outside:")}
            if o and st.get("outside_unexpected"):
                print("OUTSIDE", hname, pi, o)
    return code


def _js(p):
    try:
        json.dumps(p)
        return p
    except TypeError:
        return {k: repr(v) for k, v in p.items()}


def _work_ser(pid, tier, hname, pi, prefix, max_paths, budget_s):
    from . import engine as E

    p = [E.Decision(k, pl, ch, False) for (k, pl, ch) in prefix]
    outs, left = _work(pid, tier, hname, pi, p, max_paths, budget_s)
    return outs, [[(d.kind, d.payload, d.choice) for d in pre] for pre in left]


def _run_direct(pid, hname, tier):
    mod = _load(pid)
    h = _find(mod, hname)
    try:
        return list(h.fn(tier))
    except Exception as e:  # noqa: BLE001
        return [dict(name=hname, status="harness_error", detail=repr(e) + traceback.format_exc()[-1500:])]


def replay_file(path: str) -> int:
    blob = json.load(open(path))
    pid = blob["property"]
    mod = _load(pid)
    h = _find(mod, blob["harness"])
    if isinstance(h, Direct):
        r = mod.replay_direct(blob)
        print(r)
        return 1 if r.get("reproduced") else 0
    plist = h.quick + h.thorough
    params = next((p for p in plist if _js(p) == blob["params"]), blob["params"])
    r = _replay(h, params, blob["model"], blob["obligation"])
    print(json.dumps(r, indent=1, default=str))
    if r["reproduced"]:
        print(f"VIOLATION property={pid} replay={path}")
        return 1
    return 0
