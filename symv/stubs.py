"""Environment stubs (DESIGN.md 3.4). Every stub is listed in the evidence of the harness that uses it."""
from __future__ import annotations

from contextlib import contextmanager

from . import engine as E


class Inert:
    """Stands for an sdflit object: records its arguments, does nothing; any sampling raises OutsideClaim."""

    def __init__(self, *a, **k):
        self.args = a

    def into(self):
        return self

    def __getattr__(self, name):
        if name.startswith("__"):
            raise AttributeError(name)

        def method(*a, **k):
            raise E.OutsideClaim(f"sdflit.{name}: Monte-Carlo / SDF evaluation inside the compiled extension")

        return method


def _inert_fn(*a, **k):
    return Inert(*a, **k)


class MonteCarlo(Inert):
    pass


@contextmanager
def sdf_stubs(c, perp=None):
    """Rebinds the sdflit names (and _tp3f) used by swcgeom.utils.volumetric_object. Under the concrete
    context nothing is stubbed except that nothing needs to be: the real classes run.
    perp: optional replacement for find_unit_vector_on_plane (randomness stub)."""
    import swcgeom.utils.volumetric_object as V

    if c.mode != "sym":
        yield V
        return
    saved = {k: getattr(V, k) for k in ("Sphere", "FrustumCone", "intersect", "merge", "subtract", "_tp3f", "find_unit_vector_on_plane")}
    V.Sphere = V.FrustumCone = Inert
    V.intersect = V.merge = V.subtract = _inert_fn
    V._tp3f = lambda x: tuple(x)
    if perp is not None:
        V.find_unit_vector_on_plane = perp
    try:
        yield V
    finally:
        for k, v in saved.items():
            setattr(V, k, v)


class _SignalStub:
    """scipy.signal with `convolve` extended to symbolic 1-d inputs (documented 'full' convolution, 'same' = its central part)."""

    def __init__(self, real):
        self._real = real

    def __getattr__(self, name):
        return getattr(self._real, name)

    def convolve(self, in1, in2, mode="full", method="auto"):
        from .symnp import SArr, has_sym
        import numpy as _np

        if not (isinstance(in1, SArr) or isinstance(in2, SArr) or has_sym(in1) or has_sym(in2)):
            return self._real.convolve(in1, in2, mode=mode, method=method)
        a = list(_np.asarray(in1, dtype=object).reshape(-1))
        k = list(_np.asarray(in2, dtype=object).reshape(-1))
        n, m = len(a), len(k)
        full = []
        for t in range(n + m - 1):
            s = 0
            for j in range(n):
                if 0 <= t - j < m:
                    s = s + a[j] * k[t - j]
            full.append(s)
        if mode == "full":
            out = full
        elif mode == "same":
            start = (m - 1) // 2
            out = full[start:start + n]
        else:
            raise E.OutsideClaim("signal.convolve mode " + mode)
        return SArr(out, _np.float64)


@contextmanager
def convolve_stub(c):
    import swcgeom.transforms.branch as B

    if c.mode != "sym":
        yield
        return
    saved = B.signal
    B.signal = _SignalStub(saved)
    try:
        yield
    finally:
        B.signal = saved


class _MaskedStub:
    def __init__(self, data, mask):
        import numpy as _np

        from .symnp import _strip

        self.data = _np.asarray(_strip(data), dtype=object)
        self.mask = _np.asarray(mask, dtype=bool)
        self.shape = self.data.shape

    def argmin(self):
        """index (C order) of the first minimum over the unmasked entries, like numpy.ma"""
        best = None
        flat_d, flat_m = self.data.reshape(-1), self.mask.reshape(-1)
        for i in range(len(flat_d)):
            if flat_m[i]:
                continue
            if best is None or bool(flat_d[i] < flat_d[best]):
                best = i
        if best is None:
            raise E.OutsideClaim("argmin of a fully masked array")
        return best


class _MaStub:
    def __init__(self, real):
        self._real = real

    def __getattr__(self, name):
        return getattr(self._real, name)

    def array(self, data, mask=None, **k):
        return _MaskedStub(data, mask)


class _FrameStub:
    """dict-of-columns stand-in for the DataFrame that PointsToCuntzMST builds (scalars broadcast like pandas does)."""

    class _Col:
        def __init__(self, v):
            self.v = v

        def to_numpy(self):
            return self.v

    def __init__(self, dic):
        import numpy as _np

        n = max(len(v) for v in dic.values() if hasattr(v, "__len__"))
        self.cols = {k: (v if hasattr(v, "__len__") else _np.full(n, v)) for k, v in dic.items()}
        self.shape = (n, len(dic))

    def __getitem__(self, k):
        return self._Col(self.cols[k])


class _PdStub:
    def __init__(self, real):
        self._real = real

    def __getattr__(self, name):
        return getattr(self._real, name)

    class DataFrame:
        @staticmethod
        def from_dict(dic):
            return _FrameStub(dic)


@contextmanager
def mst_stubs(c):
    import swcgeom.transforms.mst as M

    if c.mode != "sym":
        yield
        return
    saved = (M.ma, M.pd)
    M.ma, M.pd = _MaStub(M.ma), _PdStub(M.pd)
    try:
        yield
    finally:
        M.ma, M.pd = saved
