"""C17 - point-cloud tree construction yields the intended spanning tree."""
import itertools

import numpy as np

from symv.api import And, Not, Or, dist, eq, flat, le, total
from symv.engine import PathAbort
from symv.runner import H
from symv.stubs import mst_stubs
from symv.trees import children_of, col, mk_col, reals, wf

FUNCTIONS = ["swcgeom.transforms.mst.PointsToCuntzMST.__init__/__call__", "swcgeom.transforms.mst.PointsToMST.__init__", "swcgeom.core.tree.Tree.from_data_frame", "swcgeom.core.tree_utils.sort_tree"]
ASSUMPTIONS = ["floats as reals", "general position: the input points are pairwise distinct and, at every step of the construction, the candidate costs compared are pairwise distinct (ties are outside the claim)",
               "balancing factor in [0, 1]", "branching limit k: a node is closed once it has k children; the root is exempt when exclude_soma is set",
               "with a balancing factor the oracle is the greedy rule of the property text, run next to the real code: at every step attach the pair (connected open p, unconnected q) of minimal |pq| + bf * pathlength(p)"]
OUTSIDE = ["IEEE rounding", "point sets above the bound", "ties between candidate costs", "a limit that leaves no open connected point (cannot happen for k >= 1: the newest node is always open)"]
STUBS = ["numpy.ma.array(cost, mask).argmin(): first minimum over the unmasked entries in C order with symbolic comparisons (under symbolic execution; the witness replay uses real numpy.ma)",
         "pandas.DataFrame.from_dict(...) inside swcgeom.transforms.mst: a dict-of-columns frame offering .shape and [col].to_numpy() (under symbolic execution only)"]


def _points(c, n, dims):
    cols = [reals(c, k, n) if j < dims else [0] * n for j, k in enumerate("xyz")]
    pts = [[cols[0][i], cols[1][i], cols[2][i]] for i in range(n)]
    if c.mode == "sym":
        from symv.symnp import SArr

        arr = SArr([[p[0], p[1], p[2]] for p in pts], np.float64)
    else:
        arr = np.array([[float(v) for v in p] for p in pts], dtype=np.float64)
    return pts, arr


def _reference(c, D, n, bf, k, exclude_soma):
    """Greedy rule of the property text on the distance matrix D (symbolic comparisons; ties are assumed away)."""
    pid = [-1] * n
    acc = [0] * n
    nchild = [0] * n
    conn = [True] + [False] * (n - 1)
    for _ in range(n - 1):
        best = None
        for p in range(n):
            if not conn[p]:
                continue
            if k != -1 and nchild[p] >= k and not (exclude_soma and p == 0):
                continue
            for q in range(n):
                if conn[q]:
                    continue
                cost = D[p][q] + bf * acc[p]
                if best is None:
                    best = (cost, p, q)
                    continue
                c.assume(Not(eq(cost, best[0])), "general position: no ties between candidate costs")
                if bool(cost < best[0]):
                    best = (cost, p, q)
        if best is None:
            raise PathAbort()
        _, p, q = best
        pid[q] = p
        acc[q] = acc[p] + D[p][q]
        nchild[p] += 1
        conn[q] = True
    return pid, acc


def _spanning_trees(n):
    """All labelled spanning trees on n vertices as edge lists (Pruefer sequences)."""
    if n == 1:
        return [[]]
    if n == 2:
        return [[(0, 1)]]
    out = []
    for seq in itertools.product(range(n), repeat=n - 2):
        deg = [1] * n
        for v in seq:
            deg[v] += 1
        edges = []
        seq_l = list(seq)
        for v in seq_l:
            for u in range(n):
                if deg[u] == 1:
                    edges.append((u, v))
                    deg[u] -= 1
                    deg[v] -= 1
                    break
        u, v = [i for i in range(n) if deg[i] == 1]
        edges.append((u, v))
        out.append(edges)
    return out


def h_mst(c, n, dims, soma, cls, k, bf_kind, exclude_soma, sort):
    from swcgeom.transforms import PointsToCuntzMST, PointsToMST

    pts, arr = _points(c, n, dims)
    if soma:
        soma_pt, cloud = pts[0], arr[1:]
        soma_arg = arr[0] if c.mode != "sym" else arr[0]
    else:
        cloud, soma_arg = arr, None
    for i in range(n):
        for j in range(i):
            c.assume(Not(And(*[eq(pts[i][d], pts[j][d]) for d in range(3)])), "distinct points")
    if cls == "mst":
        bf = 0
        tr = PointsToMST(k, exclude_soma=exclude_soma, sort=sort)
    else:
        bf = {"zero": 0, "half": 0.5, "one": 1}.get(bf_kind)
        if bf is None:
            bf = c.real("bf", lo=0, hi=1)
        tr = PointsToCuntzMST(bf=bf, furcations=k, exclude_soma=exclude_soma, sort=sort)
    with mst_stubs(c):
        out = tr(cloud, soma_arg) if soma else tr(cloud)
    c.prove("count", out.number_of_nodes() == n, f"{out.number_of_nodes()} nodes for {n} points")
    if out.number_of_nodes() != n:
        return
    opid = [int(v) for v in out.pid()]
    c.prove("well_formed", wf(opid) and [int(v) for v in out.id()] == list(range(n)), str(opid))
    if not wf(opid):
        return
    if sort:
        c.prove("sorted", all(opid[j] < j for j in range(n)))
    # every input point exactly once: match output nodes to input points (unique in general position)
    O = lambda j: [col(out, kk)[j] for kk in "xyz"]
    tags = []
    for j in range(n):
        m = [i for i in range(n) if i not in tags and bool(And(*[eq(u, v) for u, v in zip(O(j), pts[i])]))]
        c.prove("every_point_once", len(m) >= 1, f"output node {j} is none of the remaining input points")
        if not m:
            return
        tags.append(m[0])
    c.prove("rooted_at_soma_or_first_point", tags[0] == 0 and opid[0] == -1)
    if not sort:
        c.prove("ids_kept_without_sorting", tags == list(range(n)))
    c.prove("types", [int(v) for v in out.type()][0] == 1)
    got_pid = [None] * n
    for j in range(n):
        got_pid[tags[j]] = -1 if opid[j] == -1 else tags[opid[j]]
    D = [[dist(pts[i], pts[j]) if i != j else 0 for j in range(n)] for i in range(n)]
    length = total(D[i][got_pid[i]] for i in range(1, n)) if n > 1 else 0
    ch = children_of(got_pid)
    if k != -1:
        c.prove("branching_limit", all(len(ch[i]) <= k for i in range(n) if not (exclude_soma and i == 0)), f"children {[len(ch[i]) for i in range(n)]} limit {k}")
    if (cls == "mst" or bf_kind == "zero") and k == -1:
        for edges in _spanning_trees(n):
            c.prove("minimal_total_length", le(length, total(D[u][v] for u, v in edges)), f"against spanning tree {edges}")
    # the greedy rule of the property text, step by step
    want_pid, _ = _reference(c, D, n, bf, k, exclude_soma)
    c.prove("greedy_rule", got_pid == want_pid, f"{got_pid} vs {want_pid}")
    c.reachable("limit_binds", k != -1 and any(len(ch[i]) == k for i in range(n)))
    c.reachable("root_limit_binds", k != -1 and not exclude_soma and len(ch[0]) == k and cls == "mst")
    c.reachable("exempt_root_exceeds_limit", k != -1 and exclude_soma and len(ch[0]) > k)
    c.output("pid", got_pid)


def h_int_grid(c, n, bf_kind, k):
    """Point clouds given as INTEGER arrays (voxel indices): every placement of n points on the grid {0,1,2}^2 (solver-enumerated
    integers, concrete per path); the result must obey the same greedy rule, evaluated in floating point."""
    import math

    from swcgeom.transforms import PointsToCuntzMST

    pts = [(0, 0, 0)] + [(c.concretize(c.int(f"gx{i}", 0, 2)), c.concretize(c.int(f"gy{i}", 0, 2)), 0) for i in range(1, n)]
    if len(set(pts)) < n:
        raise PathAbort()
    bf = {"half": 0.5, "one": 1.0}[bf_kind]
    dt = c.pick("dtype", ["int64", "int32", "float64"])
    with mst_stubs(c):
        out = PointsToCuntzMST(bf=bf, furcations=k, sort=False)(np.array(pts, dtype=dt))
    got = [int(v) for v in out.pid()]
    D = [[math.dist(p, q) for q in pts] for p in pts]
    pid, acc, nchild, conn = [-1] * n, [0.0] * n, [0] * n, [True] + [False] * (n - 1)
    for _ in range(n - 1):
        cands = sorted((D[p][q] + bf * acc[p], p, q) for p in range(n) if conn[p] and (k == -1 or nchild[p] < k or p == 0) for q in range(n) if not conn[q])
        if len(cands) > 1 and cands[1][0] - cands[0][0] < 1e-6:
            raise PathAbort()  # tie: outside the claim
        _, p, q = cands[0]
        pid[q], acc[q], conn[q] = p, acc[p] + D[p][q], True
        nchild[p] += 1
    c.prove("int_grid.greedy_rule", got == pid, f"points {pts} dtype {dt}: {got} vs {pid}")
    c.prove("int_grid.coordinates", [float(v) for v in out.x()] == [float(p[0]) for p in pts] and [float(v) for v in out.y()] == [float(p[1]) for p in pts])


def _p(n, dims, **kw):
    d = dict(n=n, dims=dims, soma=False, cls="cuntz", k=-1, bf_kind="zero", exclude_soma=True, sort=True)
    d.update(kw)
    return d


QUICK = [_p(2, 3), _p(3, 3, cls="mst"), _p(3, 2, soma=True, sort=False), _p(4, 1, cls="mst"), _p(4, 1, cls="mst", k=2, exclude_soma=False), _p(4, 1, cls="mst", k=1, exclude_soma=True, soma=True),
         _p(4, 1, k=2, bf_kind="half", exclude_soma=False), _p(3, 2, bf_kind="sym"), _p(3, 2, bf_kind="one", sort=False), _p(4, 1, k=3, bf_kind="half", soma=True), _p(3, 3, k=1, bf_kind="half", exclude_soma=False),
         _p(5, 1, cls="mst"), _p(4, 1, bf_kind="sym", k=2), _p(4, 1, cls="mst", k=1, exclude_soma=False), _p(3, 2, cls="mst", k=1, exclude_soma=False), _p(3, 2, cls="mst", k=1, exclude_soma=True)]
THOROUGH = QUICK + [_p(5, 1, k=2, bf_kind="half", exclude_soma=False), _p(5, 1, k=2, bf_kind="half", exclude_soma=True), _p(5, 1, bf_kind="sym"),
                    _p(5, 1, cls="mst", k=2, exclude_soma=False, soma=True), _p(5, 1, k=1, bf_kind="half", exclude_soma=True), _p(3, 3, bf_kind="sym", k=2)]
REACH = {"mst": ["limit_binds", "root_limit_binds", "exempt_root_exceeds_limit"]}
HARNESSES = [
    H("int_grid", h_int_grid, quick=[dict(n=3, bf_kind="one", k=-1), dict(n=3, bf_kind="half", k=-1)], thorough=[dict(n=4, bf_kind="one", k=-1), dict(n=4, bf_kind="half", k=2)], functions=FUNCTIONS, validate=False,
      bounds="every placement of n=3 (quick) / 4 (thorough) distinct points on the integer grid {0,1,2}^2 with the first at the origin, passed as int64 / int32 / float64 arrays; bf in {1/2, 1}; ties excluded (enumeration of integer inputs: concrete per path)"),
    H("mst", h_mst, quick=QUICK, thorough=THOROUGH, functions=FUNCTIONS, expect_outside=True, opts=dict(branch_timeout_ms=1500),
      bounds="quick: n<=3 points in the plane / in space and n<=5 points on a line; thorough: additionally n=5 on a line with limits / balancing factors; n=4 in the plane / in space is beyond the time budget (path feasibility over six square-root variables); symbolic real coordinates in general position; bf in {0, 1/2, 1} or a symbolic real in [0,1]; limits {-1, 1, 2, 3}; exclude_soma on/off; soma given or not; sort on/off; minimality against every labelled spanning tree (16 for n=4, 125 for n=5)"),
]
