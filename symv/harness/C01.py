"""C01 - SWC write -> read round trip reproduces the tree."""
import io
import os
import re
import tempfile
import time
import warnings

import numpy as np

from symv.runner import Direct, H
from symv.trees import topology

FUNCTIONS = ["swcgeom.core.swc.SWCLike.to_swc", "swcgeom.core.swc_utils.io.to_swc / get_v (format specs read from the running code)", "swcgeom.core.swc_utils.io.parse_swc (re_swc, RE_COMMENT as compiled by the running code)",
             "swcgeom.core.swc_utils.io.read_swc", "swcgeom.core.swc_utils.normalizer.reset_index_", "swcgeom.core.tree.Tree.from_data_frame", "Tree.from_swc", "swcgeom.utils.file.FileReader"]
ASSUMPTIONS = ["CPython's format(v, spec) / float(text) / int(text) are trusted (C dtoa cannot be encoded): the value quantifier 'any finite coordinate' rests on them; the solver decides that EVERY string format() can emit for a finite float under the writer's spec is accepted by the reader's pattern and lands in the right capture",
               "comments are single-line strings that do not start with the column header text", "types are non-negative integers", "alphabet ASCII 1..126"]
OUTSIDE = ["non-finite coordinates", "ids >= 2^31", "encodings other than utf-8", "trees above the node bound in the E1 part (the writer and reader work row by row)"]

SPEC_LANG = {".4f": "-?[0-9]+[.][0-9]{4}", ".3f": "-?[0-9]+[.][0-9]{3}", ".5f": "-?[0-9]+[.][0-9]{5}", ".6f": "-?[0-9]+[.][0-9]{6}", ".2f": "-?[0-9]+[.][0-9]{2}", ".1f": "-?[0-9]+[.][0-9]"}


class _Probe(float):
    specs = []

    def __format__(self, spec):
        _Probe.specs.append(spec)
        return "\x00" + spec + "\x00"

    def __str__(self):
        _Probe.specs.append("str")
        return "\x00str\x00"

    __repr__ = __str__


class _FakeFloatCol:
    dtype = np.dtype(np.float32)

    def __getitem__(self, i):
        return _Probe(0.0)


def writer_row_template(extra=False):
    """Runs the real to_swc generator on probe columns: returns the data-row text with float
    fields replaced by markers carrying the format spec the running code used."""
    from swcgeom.core.swc_utils.io import to_swc

    cols = dict(id=np.array([0], dtype=np.int32), type=np.array([3], dtype=np.int32), pid=np.array([-1], dtype=np.int32))

    def get_ndata(k):
        return cols[k] if k in cols else _FakeFloatCol()

    _Probe.specs = []
    lines = list(to_swc(get_ndata, id_offset=5, extra_cols=["w"] if extra else None))
    rows = [l for l in lines if not l.lstrip().startswith("#")]
    header = [l for l in lines if l.lstrip().startswith("#")]
    return rows, header


def d_language(tier):
    import z3

    from symv import re2z3 as R
    from symv.harness.C02 import real_patterns

    out = []
    s = z3.String("s")
    frag = lambda p: R.fragment(p)[0]

    def query(name, must, L_code_rx, *cs, accept=True, timeout=120000):
        sv = z3.Solver()
        sv.set("timeout", timeout)
        sv.add(R.ascii_string(s))
        sv.add(*cs)
        t0 = time.time()
        r = sv.check()
        dt = time.time() - t0
        w = R.decode(sv.model().eval(s, model_completion=True).as_string()) if r == z3.sat else None
        d = dict(name=name, solver_s=dt, sample=dict(query=name, expected=must, result=str(r), witness=w))
        if str(r) == "unknown":
            d.update(status="unknown", detail=sv.reason_unknown())
        elif str(r) == must:
            d["status"] = "discharged"
            if w is not None and L_code_rx is not None and (L_code_rx.search(w) is not None) != accept:
                d.update(status="harness_error", detail=f"translator check failed on witness {w!r}")
        elif must == "unsat":
            rep = _replay_line(w)
            d.update(status="violated", detail=f"writer can emit {w!r}; {rep['why']}", model=dict(line=w, query=name), replay=rep)
        else:
            d.update(status="harness_error", detail="reachability twin unsatisfiable")
        out.append(d)

    for extra in (False, True):
        tag = ".extra_col" if extra else ""
        rows, header = writer_row_template(extra)
        pat, pat_comment, _ = real_patterns(["w"] if extra else [])
        L, tr = R.language(pat)
        rx = re.compile(pat)
        if len(rows) != 1:
            out.append(dict(name="writer_row_template" + tag, status="violated", detail=f"writer emitted {len(rows)} data lines for a one-node tree: {rows!r}", solver_s=0, replay=dict(reproduced=True, why="direct run of the real writer")))
            continue
        row = rows[0]
        # integer fields were written from id=0 (+offset 5), type=3, pid=-1: generalise them to their languages
        parts = re.split(r"(\x00[^\x00]*\x00)", row)
        unknown = [p for p in parts if p.startswith("\x00") and p.strip("\x00") not in SPEC_LANG]
        if unknown:
            out.append(dict(name="writer_float_format_known" + tag, status="violated", detail=f"float fields are written with format spec {unknown!r}; the format carries four decimals ('.4f')", solver_s=0,
                            replay=dict(reproduced=True, why="format spec observed on the running writer")))
            continue
        out.append(dict(name="writer_float_format_is_4_decimals" + tag, status="discharged" if all(p.strip("\x00") == ".4f" for p in parts if p.startswith("\x00")) else "violated",
                        detail=str(sorted(set(_Probe.specs))), solver_s=0, sample=dict(row_template=row.replace("\x00", "|")), replay=dict(reproduced=True, why="format spec observed on the running writer")))
        rx_row = ""
        for p in parts:
            if p.startswith("\x00"):
                rx_row += "(?:" + SPEC_LANG[p.strip("\x00")] + ")"
            else:
                q = re.escape(p).replace("\\ ", " ").replace("\\\n", "\\n")
                rx_row += q
        # 5 -> any id, 3 -> any type, -1 -> -1 or any id
        toks = rx_row.split(" ")
        if toks[0] != "5" or toks[1] != "3" or not any(t.startswith("\\-1") or t.startswith("-1") for t in toks):
            out.append(dict(name="writer_row_shape" + tag, status="violated", detail=f"unexpected row shape {row!r}", solver_s=0, replay=dict(reproduced=True, why="direct run of the real writer")))
            continue
        toks[0], toks[1] = "[0-9]+", "[0-9]+"
        toks = [("(?:-1|[0-9]+)" + t[len("\\-1"):] if t.startswith("\\-1") else ("(?:-1|[0-9]+)" + t[2:] if t.startswith("-1") else t)) for t in toks]
        W = frag(" ".join(toks))
        query("writer_row_accepted_by_reader" + tag, "unsat", rx, z3.InRe(s, W), z3.Not(z3.InRe(s, L)))
        query("writer_row_accepted_by_reader.twin" + tag, "sat", rx, z3.InRe(s, W), z3.InRe(s, L))
        # header and comment lines the writer emits are comments for the reader, never data rows
        for h in header:
            ok = re.compile(pat_comment).match(h) is not None and rx.search(h) is None
            out.append(dict(name="header_line_is_a_comment" + tag, status="discharged" if ok else "violated", detail=repr(h), solver_s=0, replay=dict(reproduced=not ok, why=repr(h))))
    pat, pat_comment, _ = real_patterns()
    L, _ = R.language(pat)
    Lc, _ = R.prefix_language(pat_comment)
    Cw = frag("#(?: [^\\n]*)?\\n")  # what to_swc emits for a comment: '# text\n' or '#\n'
    query("writer_comment_line_is_comment_for_reader", "unsat", None, z3.InRe(s, Cw), z3.Not(z3.InRe(s, z3.Concat(Lc, frag("[^\\n]*\\n")))))
    query("writer_comment_line_is_never_a_data_row", "unsat", None, z3.InRe(s, Cw), z3.InRe(s, L))
    return out


def _replay_line(line):
    import swcgeom.core.swc_utils.io as IO

    try:
        with warnings.catch_warnings():
            warnings.simplefilter("ignore")
            df, _ = IO.parse_swc(io.StringIO(line), names=IO.get_names(None))
        return dict(reproduced=len(df) != 1, why=f"real reader returned {len(df)} row(s) for {line!r}")
    except Exception as e:  # noqa: BLE001
        return dict(reproduced=True, why=f"real reader raised {e!r} for {line!r}")


def replay_direct(blob):
    m = blob.get("model") or {}
    if "line" in m:
        return _replay_line(m["line"])
    return dict(reproduced=True, why="observation of the running writer")


# --------------------------------------------------------------------------- E1 plumbing

VALS = [0.0, -0.0, 1.00005, -2.99995, 123456.789, 1e-5, 0.00005, 2.5, -7.12345678, 1e6, 0.99999, -0.00004]
COMMENTS = ["plain note", "  leading blanks", "", "   ", "# starts with hash", "trailing  ", "source: fake", "x y z",
            "form\x0cfeed", "vertical\x0btab and \x1c\x1d\x1e separators", "source: batch-1", ""]  # the last two: a comment block that LOOKS like a source header  # single-line for file iteration, but str.splitlines() would break them


def _expected(v):
    v32 = np.float32(v)
    return np.float32(float(format(v32, ".4f")))


def h_roundtrip(c, n, kind):
    from swcgeom.core import Tree

    pid = topology(c, n, "any")
    rot = 3 * c.choice("vals", 4)
    types = [[0, 1, 3, 7][(rot // 3 + i) % 4] for i in range(n)]
    col = lambda k: [VALS[(rot + 4 * i + k) % len(VALS)] for i in range(n)]
    xs, ys, zs = col(0), col(1), col(2)
    rs = [abs(v) + 0.25 for v in col(3)]
    ncom = c.choice("ncomments", 4)
    cs = c.choice("cstart", len(COMMENTS)) if ncom else 0
    comments = [COMMENTS[(cs + j) % len(COMMENTS)] for j in range(ncom)]
    t = Tree(n, pid=np.array(pid, dtype=np.int32), type=np.array(types, dtype=np.int32), x=np.array(xs, dtype=np.float32), y=np.array(ys, dtype=np.float32), z=np.array(zs, dtype=np.float32),
             r=np.array(rs, dtype=np.float32), comments=list(comments))
    off = c.pick("id_offset", [0, 1, 2, 7, 10**6])
    source = c.pick("source", [False, True, "s"])
    text = t.to_swc(id_offset=off, source=source)
    tmp = None
    try:
        if kind == "text":
            t2 = Tree.from_swc(io.StringIO(text))
        elif kind == "bytes":
            t2 = Tree.from_swc(io.BytesIO(text.encode("utf-8")))
        else:
            fd, tmp = tempfile.mkstemp(suffix=".swc", prefix="verif_c01_")
            os.close(fd)
            t.to_swc(tmp, id_offset=off, source=source)
            c.prove("file.same_text_as_string_form", open(tmp, encoding="utf-8").read() == text)
            t2 = Tree.from_swc(tmp)
            c.prove("file.source_recorded", t2.source == os.path.abspath(tmp))
    finally:
        if tmp and os.path.exists(tmp):
            os.remove(tmp)
    c.prove("rt.count", t2.number_of_nodes() == n, f"{t2.number_of_nodes()} vs {n}")
    if t2.number_of_nodes() != n:
        return
    c.prove("rt.ids", [int(v) for v in t2.id()] == list(range(n)))
    c.prove("rt.parents", [int(v) for v in t2.pid()] == pid, f"{list(t2.pid())} vs {pid} (offset {off})")
    c.prove("rt.types", [int(v) for v in t2.type()] == types)
    for k, vals in (("x", xs), ("y", ys), ("z", zs), ("r", rs)):
        got = [np.float32(v) for v in t2.get_ndata(k)]
        want = [_expected(v) for v in vals]
        c.prove(f"rt.{k}.rounded_to_4_decimals", all(a == b for a, b in zip(got, want)), f"{got} vs {want}")
    hdr = [] if source is False else [f"source: {'Unknown' if source is True else source}", ""]
    want_c = hdr + [s.lstrip() for s in comments]
    got_c = [s.lstrip() for s in t2.comments]
    c.prove("rt.comments", got_c == want_c, f"{t2.comments} vs {want_c}")
    c.prove("rt.input_untouched", [int(v) for v in t.pid()] == pid and list(t.comments) == comments and [int(v) for v in t.id()] == list(range(n)))
    # writing what was read gives the same text again (nothing accumulates over round trips)
    if source is False:
        again = t2.to_swc(id_offset=off, source=False)
        norm = lambda tx: [l.rstrip() for l in tx.splitlines()]  # an empty comment may come back as '#' or '# '
        c.prove("rt.idempotent_text", norm(again) == norm(text), f"{again!r} vs {text!r}")
        t3 = Tree.from_swc(io.StringIO(again))
        c.prove("rt.second_trip_comments", [s.lstrip() for s in t3.comments] == want_c, f"{t3.comments}")
    c.output("text", text[:120])


def h_frame(c, n):
    """read_swc on the writer's text: the table itself (before Tree construction), both reset modes."""
    from swcgeom.core import Tree
    from swcgeom.core.swc_utils import read_swc

    pid = topology(c, n, "any")
    t = Tree(n, pid=np.array(pid, dtype=np.int32), type=np.array([1] + [3] * (n - 1), dtype=np.int32), x=np.arange(n, dtype=np.float32) * 1.5, y=np.zeros(n, dtype=np.float32),
             z=np.zeros(n, dtype=np.float32), r=np.ones(n, dtype=np.float32), w=np.arange(n, dtype=np.float32) + 0.12345)
    off = c.pick("id_offset", [0, 1, 5])
    extra = c.pick("extra", [False, True])
    text = t.to_swc(id_offset=off, source=False, extra_cols=["w"] if extra else None)
    reset = c.pick("reset_index", [True, False])
    with warnings.catch_warnings(record=True) as w:
        warnings.simplefilter("always")
        df, comments = read_swc(io.StringIO(text), extra_cols=["w"] if extra else None, reset_index=reset)
    shift = 0 if reset else off
    c.prove("frame.ids", [int(v) for v in df["id"]] == [i + shift for i in range(n)])
    c.prove("frame.pids", [int(v) for v in df["pid"]] == [p if p == -1 else p + shift for p in pid])
    c.prove("frame.no_comment_added", comments == [], f"{comments}")
    c.prove("frame.no_warning", [str(x.message) for x in w] == [], f"{[str(x.message) for x in w]}")
    if extra:
        c.prove("frame.extra_col", [np.float32(v) for v in df["w"]] == [_expected(v) for v in t.get_ndata("w")])


HARNESSES = [
    Direct("language", d_language, functions=FUNCTIONS, bounds="rows of ANY length: the language of all rows the running writer can emit (format specs probed on the real to_swc) is included in the language of the reader's compiled pattern"),
    H("roundtrip", h_roundtrip, quick=[dict(n=k, kind=kd) for k in (1, 2) for kd in ("text", "bytes")] + [dict(n=3, kind="file")], thorough=[dict(n=3, kind="text"), dict(n=3, kind="bytes"), dict(n=4, kind="file")], functions=FUNCTIONS,
      bounds="every numbering (root 0) of every tree on n<=2-3 (quick) / 3-4 (thorough) nodes x 4 rotations of a 12-value palette (rounding at the 4th decimal, -0.0, 1e6, 1e-5) and of the type palette {0,1,3,7} x 0..3 consecutive comments from a cyclic palette of 12 (plain, leading blanks, empty, blank-only, '#...', trailing blanks, 'source: ...', ASCII form feed / vertical tab / FS-GS-RS inside a comment, 'source: ...' followed by an empty comment) x id offsets {0,1,2,7,10^6} x source {False,True,str} x {text, bytes, file}"),
    H("frame", h_frame, quick=[dict(n=2), dict(n=3)], thorough=[dict(n=4)], functions=FUNCTIONS, bounds="n<=3/4, id offsets 0/1/5, with/without an extra column, both reset_index modes"),
]
