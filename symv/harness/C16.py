"""C16 - resampling and smoothing keep the neuron's shape."""
import numpy as np

from symv.api import And, Implies, Not, Or, dist, eq, flat, ite, le, total
from symv.engine import PathAbort
from symv.runner import H
from symv.stubs import convolve_stub
from symv.trees import children_of, col, mk_col, reals, sym_tree

FUNCTIONS = ["swcgeom.transforms.branch.BranchLinearResampler.resample", "BranchIsometricResampler.resample", "_BranchResampler.__call__", "BranchConvSmoother.__call__",
             "swcgeom.transforms.tree.Resampler.__call__", "IsometricResampler", "TreeSmoother.__call__", "swcgeom.transforms.branch_tree.BranchTreeAssembler.__call__/pair",
             "swcgeom.core.branch_tree.BranchTree.from_tree", "swcgeom.core.branch.Branch.from_xyzr/detach", "swcgeom.core.tree.Tree.get_branches"]
ASSUMPTIONS = ["floats as reals", "spacing d > 0 with (branch length)/d <= 3 (bounds the forked node count); target counts n in {2,3,4}; windows in {1,2,3,5}",
               "line harnesses: coordinates on a line (y = z = 0): arc length = sum |dx|, polylines that turn back are included, every query is linear arithmetic",
               "where a new point falls exactly on an original point between a zero-length and a proper segment, either neighbouring radius is accepted (the property says 'linearly along the branch')",
               "tree resampling: the junction matching of the assembler is by nearest end point; general position of the children of a furcation is NOT assumed - any consistent matching is accepted"]
OUTSIDE = ["IEEE rounding", "branches / trees above the bound, length/spacing ratios above 3", "BranchStandardizer", "total-length monotonicity in 3-D (proved on lines and in the plane for 3-point branches)"]
STUBS = ["scipy.signal.convolve(v, ones(k), 'same'): sliding-window sum from the SciPy documentation under symbolic execution; every path witness is re-run with the real SciPy"]


def _branch(c, m, dims, tag=""):
    from swcgeom.core import Branch

    cols = [reals(c, tag + k, m) if j < dims else [0] * m for j, k in enumerate("xyz")]
    r = reals(c, tag + "r", m, lo=0, lo_strict=True)
    xyzr = np.stack([mk_col(c, cols[0]), mk_col(c, cols[1]), mk_col(c, cols[2]), mk_col(c, r)], axis=1)
    return Branch.from_xyzr(xyzr), cols, r


def _cum(cols, m):
    P = lambda i: [cols[0][i], cols[1][i], cols[2][i]]
    seg = [dist(P(i), P(i + 1)) for i in range(m - 1)]
    cum = [0]
    for s in seg:
        cum.append(cum[-1] + s)
    return seg, cum


def _on_polyline(a, vals, cols, r, seg, cum):
    """The point with coordinates/radius `vals` (x,y,z,r) lies on the original polyline at arc length a, radius linear in arc length."""
    m = len(cum)
    alts = []
    for i in range(m - 1):
        proper = []
        for d, src in enumerate(cols + [r]):
            proper.append(eq(vals[d] * seg[i], src[i] * seg[i] + (a - cum[i]) * (src[i + 1] - src[i])))
        alts.append(And(cum[i] <= a, a <= cum[i + 1], Not(eq(seg[i], 0)), *proper))
        # zero-length segment: the point is that point; either radius
        alts.append(And(eq(seg[i], 0), eq(a, cum[i]), *[eq(vals[d], cols[d][i]) for d in range(3)], Or(eq(vals[3], r[i]), eq(vals[3], r[i + 1]))))
    return Or(*alts)


def _check_resampled(c, tag, out_cols, m_in, cols, r, arcs):
    """out_cols: list of 4 lists (x,y,z,r) of the new points; arcs: their expected arc lengths."""
    seg, cum = _cum(cols, m_in)
    k = len(arcs)
    if k == 0:
        return seg, cum
    # end points: position kept exactly; radius kept, except that across a zero-length end segment (two coincident original
    # points with different radii) the radius of either coincident point is accepted
    def end_ok(j_out, end, step):
        pos = And(*[eq(out_cols[d][j_out], cols[d][end]) for d in range(3)])
        alts = [eq(out_cols[3][j_out], r[end])]
        zero = []
        i = end
        while 0 <= i + step < m_in:
            zero.append(eq(seg[min(i, i + step)], 0))
            alts.append(And(*zero, eq(out_cols[3][j_out], r[i + step])))
            i += step
        return And(pos, Or(*alts))

    c.prove(f"{tag}.first_point_kept", end_ok(0, 0, 1))
    c.prove(f"{tag}.last_point_kept", end_ok(k - 1, m_in - 1, -1))
    for j in range(1, k - 1):
        c.prove(f"{tag}.on_polyline", _on_polyline(arcs[j], [out_cols[d][j] for d in range(4)], cols, r, seg, cum), f"new point {j}")
    return seg, cum


def h_linear(c, m, n, dims):
    """BranchLinearResampler(n): n points at equal arc-length steps, end points kept."""
    from swcgeom.transforms import BranchLinearResampler

    br, cols, r = _branch(c, m, dims)
    out = BranchLinearResampler(n)(br)
    c.prove("linear.count", len(out) == n and out.number_of_nodes() == n)
    oc = [flat(out.x()), flat(out.y()), flat(out.z()), flat(out.r())]
    seg, cum = _cum(cols, m)
    L = cum[-1]
    arcs = [L * j / (n - 1) for j in range(n)]
    _check_resampled(c, "linear", oc, m, cols, r, arcs)
    c.prove("linear.chain", [int(v) for v in out.pid()] == list(range(-1, n - 1)) and [int(v) for v in out.id()] == list(range(n)))
    if dims == 1 or m <= 3:
        newlen = total(dist([oc[d][j] for d in range(3)], [oc[d][j + 1] for d in range(3)]) for j in range(n - 1))
        c.prove("linear.length_does_not_grow", le(newlen, L))
    c.prove("linear.input_untouched", And(*[eq(a, b) for a, b in zip(flat(br.x()), cols[0])]))
    c.reachable("zero_length_segment", Or(*[eq(s, 0) for s in seg]))
    c.output("x", oc[0])


def h_isometric(c, m, dims, adjust):
    """BranchIsometricResampler(d): equal steps no longer than d (adjust_last_gap) / steps of d and a shorter last one."""
    from swcgeom.transforms.branch import BranchIsometricResampler

    br, cols, r = _branch(c, m, dims)
    d = c.real("d", lo=0, lo_strict=True)
    seg, cum = _cum(cols, m)
    L = cum[-1]
    c.assume(L <= 3 * d)
    out = BranchIsometricResampler(d, adjust_last_gap=adjust)(br)
    k = len(out)
    oc = [flat(out.x()), flat(out.y()), flat(out.z()), flat(out.r())]
    c.prove("isometric.at_least_two_points_unless_degenerate", Or(k >= 2, eq(L, 0)), f"{k} points")
    if k < 2:
        c.prove("isometric.degenerate_keeps_the_point", k == 1 and And(*[eq(oc[dd][0], (cols + [r])[dd][0]) for dd in range(3)]))
        return
    if adjust:
        arcs = [L * j / (k - 1) for j in range(k)]
        c.prove("isometric.step_not_longer_than_spacing", le(L / (k - 1), d))
    else:
        arcs = [d * j for j in range(k - 1)] + [L]
        c.prove("isometric.steps", And(*[le(arcs[j + 1] - arcs[j], d) for j in range(k - 1)] + [arcs[j + 1] >= arcs[j] for j in range(k - 1)]))
    _check_resampled(c, "isometric", oc, m, cols, r, arcs)
    c.prove("isometric.chain", [int(v) for v in out.pid()] == list(range(-1, k - 1)))
    if dims == 1:
        newlen = total(dist([oc[dd][j] for dd in range(3)], [oc[dd][j + 1] for dd in range(3)]) for j in range(k - 1))
        c.prove("isometric.length_does_not_grow", le(newlen, L))
    c.reachable("three_or_more_points", k >= 3)
    c.output("k", k)


def h_smooth_branch(c, m, win, dims):
    from swcgeom.transforms.branch import BranchConvSmoother

    br, cols, r = _branch(c, m, dims)
    with convolve_stub(c):
        out = BranchConvSmoother(n_nodes=win)(br)
    c.prove("smooth.count", len(out) == m)
    oc = [flat(out.x()), flat(out.y()), flat(out.z()), flat(out.r())]
    c.prove("smooth.end_points", And(*[eq(oc[d][0], (cols + [r])[d][0]) for d in range(4)] + [eq(oc[d][m - 1], (cols + [r])[d][m - 1]) for d in range(4)]))
    c.prove("smooth.radii", And(*[eq(a, b) for a, b in zip(oc[3], r)]))
    c.prove("smooth.chain", [int(v) for v in out.pid()] == list(range(-1, m - 1)) and [int(v) for v in out.id()] == list(range(m)))
    # moving average over the window (clipped at the ends), as 'same'-mode convolution with a box kernel defines it
    start = (win - 1) // 2
    for i in range(1, m - 1):
        idx = [j for j in range(m) if 0 <= i + start - j < win]
        for d in range(3):
            c.prove("smooth.moving_average", eq(oc[d][i] * len(idx), total(cols[d][j] for j in idx)), f"point {i}, window {idx}")
    c.prove("smooth.input_untouched", And(*[eq(a, b) for a, b in zip(flat(br.x()), cols[0])]))
    c.output("x", oc[0])


def _ref_branches(pid):
    from symv.harness.C08 import _expected_branches

    return _expected_branches(pid)


def h_smooth_tree(c, n, win):
    from swcgeom.transforms import TreeSmoother

    t, a = sym_tree(c, n, mode="any", dims=2, extra=("w",))
    pid = a["pid"]
    ch = children_of(pid)
    with convolve_stub(c):
        out = TreeSmoother(n_nodes=win)(t)
    c.prove("tree_smooth.count", out.number_of_nodes() == n)
    c.prove("tree_smooth.connectivity", [int(v) for v in out.pid()] == pid and [int(v) for v in out.id()] == list(range(n)) and [int(v) for v in out.type()] == a["type"])
    c.prove("tree_smooth.radii", And(*[eq(x, y) for x, y in zip(col(out, "r"), a["r"])] + [eq(x, y) for x, y in zip(col(out, "w"), a["w"])]))
    crit = [i for i in range(n) if i == 0 or len(ch[i]) != 1]
    c.prove("tree_smooth.critical_nodes_fixed", And(*[eq(col(out, k)[i], a[k][i]) for i in crit for k in "xyz"]))
    start = (win - 1) // 2
    for b in _ref_branches(pid):
        m = len(b)
        for i in range(1, m - 1):
            idx = [b[j] for j in range(m) if 0 <= i + start - j < win]
            for k in "xy":
                c.prove("tree_smooth.moving_average", eq(col(out, k)[b[i]] * len(idx), total(a[k][j] for j in idx)), f"branch {b} point {i}")
    c.prove("tree_smooth.input_untouched", And(*[eq(x, y) for k in "xy" for x, y in zip(col(t, k), a[k])]))
    c.reachable("interior_node", any(len(b) > 2 for b in _ref_branches(pid)))


def _match_tree(c, tag, out, a, accepts):
    """out: resampled tree. accepts(b, pts) -> condition saying that the chain of points pts (x,y,z,r; both ends included) is an
    admissible image of branch b (list of old ids).  Checks that `out` consists of the critical nodes of the original joined by
    exactly one admissible chain per original branch, with the same connectivity."""
    pid = a["pid"]
    n_out = out.number_of_nodes()
    opid = [int(v) for v in out.pid()]
    och = children_of(opid)
    O = lambda j: [col(out, k)[j] for k in "xyzr"]
    A = lambda i: [a[k][i] for k in "xyzr"]
    ch = children_of(pid)
    c.prove(f"{tag}.root_kept", And(*[eq(u, v) for u, v in zip(O(0), A(0))]) and opid[0] == -1)
    used = 1
    ok = True
    stack = [(0, 0)]  # (old critical node, new node)
    while stack and ok:
        old, new = stack.pop()
        wants = [b for b in _ref_branches(pid) if b[0] == old]
        c.prove(f"{tag}.degree", len(och[new]) == len(wants), f"node {old}: {len(och[new])} outgoing chains, expected {len(wants)}")
        if len(och[new]) != len(wants):
            return
        remaining = list(wants)
        for first in och[new]:
            chain = [new, first]
            while len(och[chain[-1]]) == 1:
                chain.append(och[chain[-1]][0])
            # find an original branch from `old` whose expected chain this is
            found = None
            for b in remaining:
                cond = accepts(b, [O(j) for j in chain])
                if cond is not False and bool(cond):
                    found = b
                    break
            c.prove(f"{tag}.chain_matches_a_branch", found is not None, f"chain {chain} from node {old}")
            if found is None:
                return
            remaining.remove(found)
            used += len(chain) - 1
            end_old = found[-1]
            c.prove(f"{tag}.end_is_same_kind", len(och[chain[-1]]) == len(ch[end_old]) or len(ch[end_old]) == 0 and len(och[chain[-1]]) == 0)
            stack.append((end_old, chain[-1]))
    c.prove(f"{tag}.no_extra_nodes", used == n_out, f"{used} of {n_out}")


def _root_type(c, t, a):
    """any root type: soma (1) or a neurite type (3), as for a sub tree cut out of a neuron"""
    ty = c.pick("root_type", [1, 3])
    a["type"][0] = ty
    t.ndata["type"][0] = ty


def h_tree_resample(c, n, adjust):
    """IsometricResampler(d)(tree) on a line: root, furcations, tips kept and connected as before; other nodes at equal arc steps <= d
    on the polyline of their branch; radii linear; total length does not grow."""
    from swcgeom.transforms import IsometricResampler

    t, a = sym_tree(c, n, mode="any", dims=1)
    _root_type(c, t, a)
    pid = a["pid"]
    d = c.real("d", lo=0, lo_strict=True)
    cols = [a["x"], a["y"], a["z"]]
    brs = _ref_branches(pid)
    info = {}
    for b in brs:
        bc = [[cols[k][i] for i in b] for k in range(3)]
        seg, cum = _cum(bc, len(b))
        c.assume(cum[-1] <= 3 * d)
        info[tuple(b)] = (bc, [a["r"][i] for i in b], seg, cum)
    out = IsometricResampler(d, adjust_last_gap=adjust)(t)

    def accepts(b, pts):
        bc, br_, seg, cum = info[tuple(b)]
        L = cum[-1]
        k = len(pts) - 1  # number of steps of the chain
        src = bc + [br_]
        ends = [eq(pts[0][dd], src[dd][0]) for dd in range(4)] + [eq(pts[-1][dd], src[dd][-1]) for dd in range(4)]
        if k == 1:
            # no interior point: admissible iff one step is enough (L <= d)
            return And(L <= d, *ends)
        if adjust:
            arcs = [L * j / k for j in range(k + 1)]
            spacing = And(L <= k * d, L > (k - 1) * d)
        else:
            arcs = [d * j for j in range(k)] + [L]
            spacing = And(L <= k * d, L > (k - 1) * d)
        return And(spacing, *ends, *[_on_polyline(arcs[j], pts[j], bc, br_, seg, cum) for j in range(1, k)])

    c.prove("tree_resample.ids", [int(v) for v in out.id()] == list(range(out.number_of_nodes())))
    _match_tree(c, "tree_resample", out, a, accepts)
    # total length never grows
    opid = [int(v) for v in out.pid()]
    ox = col(out, "x")
    newlen = total(abs(ox[j] - ox[opid[j]]) for j in range(1, len(opid)))
    oldlen = total(abs(a["x"][i] - a["x"][pid[i]]) for i in range(1, n))
    c.prove("tree_resample.length_does_not_grow", le(newlen, oldlen))
    c.prove("tree_resample.input_untouched", And(*[eq(x, y) for x, y in zip(col(t, "x"), a["x"])]) and [int(v) for v in t.pid()] == pid)
    c.reachable("furcation", any(len(v) > 1 for v in children_of(pid).values()))
    c.reachable("root_with_one_child", len(children_of(pid)[0]) == 1)
    c.output("n_out", out.number_of_nodes())


def h_assembler_identity(c, n):
    """BranchTree.from_tree followed by BranchTreeAssembler with the branches untouched gives the original tree back
    (same critical nodes, same chains) - the re-assembly step of every resampler."""
    from swcgeom.core import BranchTree
    from swcgeom.transforms.branch_tree import BranchTreeAssembler

    t, a = sym_tree(c, n, mode="any", dims=2)
    _root_type(c, t, a)
    bt = BranchTree.from_tree(t)
    out = BranchTreeAssembler()(bt)
    c.prove("assembler.count", out.number_of_nodes() == n, f"{out.number_of_nodes()} vs {n}")
    _match_tree(c, "assembler", out, a, lambda b, pts: False if len(pts) != len(b) else And(*[eq(u, a[k][i]) for p, i in zip(pts, b) for u, k in zip(p, "xyzr")]))
    c.reachable("root_with_one_child", len(children_of(a["pid"])[0]) == 1)


REACH = {"tree_resample": ["furcation", "root_with_one_child"], "assembler_identity": ["root_with_one_child"], "isometric": ["three_or_more_points"], "smooth_tree": ["interior_node"]}
HARNESSES = [
    H("linear", h_linear, quick=[dict(m=2, n=3, dims=3), dict(m=3, n=2, dims=1), dict(m=3, n=3, dims=1), dict(m=3, n=4, dims=1), dict(m=3, n=3, dims=2)],
      thorough=[dict(m=2, n=3, dims=3), dict(m=3, n=2, dims=1), dict(m=3, n=3, dims=1), dict(m=3, n=4, dims=1), dict(m=3, n=3, dims=2), dict(m=4, n=3, dims=1), dict(m=3, n=5, dims=1)], functions=FUNCTIONS,
      bounds="branches of m<=3 points resampled to n<=4 points on a line, m=3,n=3 in the plane, m=2 in 3-D (quick); m=4 on a line resampled to 3 points, m=3 to 5 points (thorough); coordinates any reals incl. zero-length segments and polylines that turn back"),
    H("isometric", h_isometric, quick=[dict(m=2, dims=1, adjust=True), dict(m=3, dims=1, adjust=True), dict(m=3, dims=1, adjust=False), dict(m=2, dims=3, adjust=True)],
      thorough=[dict(m=2, dims=1, adjust=True), dict(m=3, dims=1, adjust=True), dict(m=3, dims=1, adjust=False), dict(m=2, dims=3, adjust=True), dict(m=4, dims=1, adjust=True)], functions=FUNCTIONS, expect_outside=True, replay_outside=True,
      bounds="branches of m<=3 (quick) / 4 (thorough) points on a line, m=2 in 3-D, spacing any d>0 with L<=3d, adjust_last_gap on/off"),
    H("smooth_branch", h_smooth_branch, quick=[dict(m=m, win=w, dims=2) for m in (2, 3, 4) for w in (1, 2, 3, 5)], thorough=[dict(m=5, win=w, dims=3) for w in (1, 2, 3, 4, 5, 7)], functions=FUNCTIONS,
      bounds="branches of m<=4 (quick) / 5 (thorough) points, windows {1,2,3,5} / {1,2,3,4,5,7}"),
    H("smooth_tree", h_smooth_tree, quick=[dict(n=3, win=3), dict(n=4, win=3), dict(n=4, win=5)], thorough=[dict(n=3, win=3), dict(n=4, win=3), dict(n=4, win=5), dict(n=5, win=3)], functions=FUNCTIONS, bounds="every numbering of every tree with n<=4/5 nodes in the plane"),
    H("assembler_identity", h_assembler_identity, quick=[dict(n=k) for k in (1, 2, 3, 4)], thorough=[dict(n=5)], functions=FUNCTIONS, bounds="every numbering of every tree with n<=4/5 nodes in the plane"),
    H("tree_resample", h_tree_resample, quick=[dict(n=2, adjust=True), dict(n=3, adjust=True), dict(n=3, adjust=False)], thorough=[dict(n=2, adjust=True), dict(n=2, adjust=False), dict(n=3, adjust=True), dict(n=3, adjust=False)], functions=FUNCTIONS, expect_outside=True, replay_outside=True,
      bounds="every numbering of every tree with n<=3 nodes on a line (n=4 is beyond the time budget), root typed soma or not, spacing any d>0 with every branch length <= 3d"),
]
