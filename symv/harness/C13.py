"""C13 - closed-form volumes of the primitives equal the true geometric volume."""
import numpy as np

from symv.api import And, Not, Or, eq, ite, vmin
from symv.runner import H
from symv.stubs import sdf_stubs

FUNCTIONS = ["swcgeom.utils.volumetric_object.VolSphere.__init__/_get_volume/calc_volume/calc_volume_spherical_cap/get_volume_spherical_cap/union/intersect", "VolObject.get_volume",
             "VolFrustumCone.__init__/height/_get_volume/calc_volume/union", "VolSphere2Intersection._get_volume/calc_intersect_volume", "VolSphere2Union._get_volume",
             "VolSphereFrustumConeIntersection._get_volume/calc_concentric_intersect_volume", "VolSphereFrustumConeUnion._get_volume",
             "swcgeom.utils.solid_geometry.find_sphere_line_intersection", "project_point_on_line", "find_unit_vector_on_plane (contract checked separately)"]
STUBS = ["sdflit Sphere/FrustumCone/intersect/merge/subtract: inert recorders (any sampling call raises OutsideClaim)", "_tp3f (float conversion for sdflit): identity",
         "find_unit_vector_on_plane inside volumetric_object: ANY unit vector of the plane normal to the axis (rational parametrisation of the circle plus the point (-1,0)); the real function is proved to satisfy this contract for every random draw in harness unit_vector"]
ASSUMPTIONS = ["floats as reals; np.pi is a symbolic constant PI in (3.1415926, 3.1415927): volumes are compared as polynomial identities in PI",
               "oracle = integration of circular cross-sections along the axis (antiderivatives with implicitly defined breakpoints), written from the definition of the solids",
               "epsilon bands of the code's tolerant comparisons excluded: -1e-6 <= r2-r1 < 0 and 1 < t <= 1+1e-6; the frustum is longer than np.allclose's tolerance at its end points (h > 1e-8 + 1e-5*|coordinate|), otherwise the code cannot tell the two ends apart (see DESIGN, observation on C13)",
               "sphere/frustum intersection and union: frustum axis along one of the six coordinate directions, sphere centre an arbitrary point; two-sphere and single-solid formulas: every position and orientation (they depend on |c1-c2| only)"]
OUTSIDE = ["IEEE rounding", "sphere/frustum pairs that do not share centre and radius at one end (Monte-Carlo in sdflit)", "frustum axes oblique to the coordinate axes for the sphere/frustum formulas", "zero radii / zero height"]


def _pt(c, name):
    return [c.real(name + k) for k in "xyz"]


def _arr(c, v):
    if c.mode == "sym":
        from symv.symnp import SArr

        return SArr(list(v), np.float64)
    return np.array([float(x) for x in v], dtype=np.float64)


def S_sphere(c, r, z):
    """antiderivative of the sphere's cross-section area pi (r^2 - z^2)"""
    return c.pi() * (r * r * z - z * z * z / 3)


def G_cone(c, ra, k, z):
    """antiderivative of pi (ra + k z)^2"""
    return c.pi() * (ra * ra * z + ra * k * z * z + k * k * z * z * z / 3)


def h_solids(c):
    with sdf_stubs(c) as V:
        r = c.real("r", lo=0, lo_strict=True)
        ctr = _pt(c, "c")
        s = V.VolSphere(_arr(c, ctr), r)
        c.prove_eq("sphere", s.get_volume(), S_sphere(c, r, r) - S_sphere(c, r, -r))
        c.prove_eq("sphere.cached_call_agrees", s.get_volume(), S_sphere(c, r, r) - S_sphere(c, r, -r))
        h = c.real("h", lo=0)
        c.assume(h <= 2 * r)
        c.prove_eq("cap", s.get_volume_spherical_cap(h), S_sphere(c, r, r) - S_sphere(c, r, r - h))
        c.prove_eq("cap.static", V.VolSphere.calc_volume_spherical_cap(r, h), S_sphere(c, r, r) - S_sphere(c, r, r - h))
        c.prove_eq("cap.complement", s.get_volume_spherical_cap(h) + s.get_volume_spherical_cap(2 * r - h), s.get_volume())
        # frustum between two arbitrary points: the volume depends on the distance only
        r1, r2 = c.real("r1", lo=0, lo_strict=True), c.real("r2", lo=0, lo_strict=True)
        p1, p2 = _pt(c, "p"), _pt(c, "q")
        f = V.VolFrustumCone(_arr(c, p1), r1, _arr(c, p2), r2)
        d = f.height()
        c.assume(d > 0)
        k = (r2 - r1) / d
        c.prove_eq("frustum", f.get_volume(), G_cone(c, r1, k, d) - G_cone(c, r1, k, 0))
        c.prove_eq("frustum.height_is_distance", d * d, sum((a - b) * (a - b) for a, b in zip(p1, p2)))
        c.output("sphere", s.get_volume())


def _lens_oracle(c, r1, r2, d):
    x = (d * d + r1 * r1 - r2 * r2) / (2 * d)  # radical plane, measured from centre 1
    cap1 = S_sphere(c, r1, r1) - S_sphere(c, r1, x)
    cap2 = S_sphere(c, r2, r2) - S_sphere(c, r2, d - x)
    return cap1 + cap2


def h_two_spheres(c):
    with sdf_stubs(c) as V:
        r1, r2 = c.real("r1", lo=0, lo_strict=True), c.real("r2", lo=0, lo_strict=True)
        p1, p2 = _pt(c, "p"), _pt(c, "q")
        s1, s2 = V.VolSphere(_arr(c, p1), r1), V.VolSphere(_arr(c, p2), r2)
        inter = s1.intersect(s2).get_volume()
        uni = s1.union(s2).get_volume()
        from symv.api import dist

        d = dist(p1, p2)
        rmin = vmin(r1, r2)
        vs = lambda r: S_sphere(c, r, r) - S_sphere(c, r, -r)
        disjoint = d >= r1 + r2
        nested = d <= abs(r1 - r2)
        if c.mode == "sym":
            # the code has already forked on its own tests; the oracle region is decided independently
            if disjoint:
                want = 0
                c.reachable("disjoint_or_tangent")
            elif nested:
                want = vs(rmin)
                c.reachable("nested")
            else:
                want = _lens_oracle(c, r1, r2, d)
                c.reachable("lens")
        else:
            want = 0 if disjoint else (vs(rmin) if nested else _lens_oracle(c, r1, r2, d))
        c.prove_eq("two_spheres.intersection", inter, want)
        c.prove_eq("two_spheres.union", uni, vs(r1) + vs(r2) - want)
        c.prove_eq("two_spheres.symmetric", s2.intersect(s1).get_volume(), inter)
        c.output("inter", inter)


def _perp_stub(c, axis):
    j, k = [i for i in range(3) if i != axis]

    def perp(normal):
        which = c.choice("perp.point", 2)
        if which == 0:
            m = c.real("perp.m")
            den = 1 + m * m
            cs, sn = (1 - m * m) / den, 2 * m / den
        else:
            cs, sn = -1.0, 0.0
        v = [0.0, 0.0, 0.0]
        v[j], v[k] = cs, sn
        return _arr(c, v)

    return perp


def _sf_oracle(c, ra, rb, h):
    """Volume of {sphere radius ra centred at the frustum end of radius ra} intersected with the frustum of height h."""
    k = (rb - ra) / h
    top = vmin(h, ra)
    if c.mode == "sym":
        wide = bool(rb >= ra)
    else:
        wide = rb >= ra
    if wide:
        return S_sphere(c, ra, top) - S_sphere(c, ra, 0), None
    # narrowing cone: it is inside the sphere up to the height zs where (ra + k zs)^2 = ra^2 - zs^2, zs > 0
    if c.mode == "sym":
        zs = c.real("oracle.zs", lo=0, lo_strict=True)
        c.assume(eq((ra + k * zs) * (ra + k * zs), ra * ra - zs * zs))
    else:
        zs = -2 * ra * k / (k * k + 1)
    m1 = vmin(zs, h)
    cone_part = G_cone(c, ra, k, m1) - G_cone(c, ra, k, 0)
    sph_part = ite(m1 < top, S_sphere(c, ra, top) - S_sphere(c, ra, m1), 0)
    return cone_part + sph_part, zs


def h_sphere_frustum(c, axis, sign, end):
    eps = 1e-6
    ra, rb = c.real("ra", lo=0, lo_strict=True), c.real("rb", lo=0, lo_strict=True)
    h = c.real("h", lo=0, lo_strict=True)
    c.assume(Not(And(rb - ra >= -eps, rb - ra < 0)))
    o = _pt(c, "o")
    far = list(o)
    far[axis] = o[axis] + sign * h
    # np.allclose(c1, c2) (atol 1e-8, rtol 1e-5 RELATIVE TO THE COORDINATE) must tell the two ends apart
    c.assume(And(h > 1e-8 + 1e-5 * abs(o[axis]), h > 1e-8 + 1e-5 * abs(far[axis])))
    with sdf_stubs(c, perp=_perp_stub(c, axis)) as V:
        sphere = V.VolSphere(_arr(c, o), ra)
        if end == 1:
            fc = V.VolFrustumCone(_arr(c, o), ra, _arr(c, far), rb)
        else:
            fc = V.VolFrustumCone(_arr(c, far), rb, _arr(c, o), ra)
        want, zs = _sf_oracle(c, ra, rb, h)
        if zs is not None:
            c.assume(Or(zs <= h, zs > h * (1 + eps)))
        inter_raw = sphere.intersect(fc).get_volume()
        inter = c.simp(inter_raw)
        c.prove_eq("sphere_frustum.intersection", inter, want)
        k = (rb - ra) / h
        vs = S_sphere(c, ra, ra) - S_sphere(c, ra, -ra)
        vf = G_cone(c, ra, k, h) - G_cone(c, ra, k, 0)
        # union = sphere + frustum - intersection (inclusion-exclusion), each term against its oracle:
        # with the intersection obligation above this gives union == vs + vf - oracle intersection
        c.prove_eq("sphere_frustum.sphere_term", sphere.get_volume(), vs)
        c.prove_eq("sphere_frustum.frustum_term", c.simp(fc.get_volume()), vf)
        uni = sphere.union(fc).get_volume()
        c.prove_eq("sphere_frustum.union", uni, sphere.get_volume() + fc.get_volume() - inter_raw)
        uni2 = fc.union(sphere).get_volume()
        c.prove_eq("sphere_frustum.union_commutes", uni2, sphere.get_volume() + fc.get_volume() - inter_raw)
        if zs is not None:
            c.reachable("narrowing.frustum_inside_sphere", zs > h)
            c.reachable("narrowing.crossing_below_top", And(zs < h, h < ra))
            c.reachable("narrowing.tall", h >= ra)
        else:
            c.reachable("widening.short", h < ra)
            c.reachable("widening.tall", h >= ra)
        c.output("inter", inter)


def h_unit_vector(c):
    """The real find_unit_vector_on_plane returns a unit vector perpendicular to the normal for EVERY random draw."""
    import swcgeom.utils.solid_geometry as G

    n = [c.real("nx"), c.real("ny"), c.real("nz")]
    c.assume(eq(n[0] * n[0] + n[1] * n[1] + n[2] * n[2], 1))
    if c.mode == "sym":
        draws = [[c.real(f"rand{i}{k}", lo=0, hi=1) for k in "xyz"] for i in range(2)]
        it = iter(draws)

        class R:
            @staticmethod
            def rand(k):
                try:
                    return _arr(c, next(it))
                except StopIteration:
                    from symv.engine import PathAbort

                    raise PathAbort()

        saved = G.np
        from symv.symnp import NpProxy

        class P2(NpProxy):
            random = R

            def allclose(self, a, b, **k):
                # the redraw test: the accepted draw is one that is not (numerically) parallel to the normal
                return False

        G.np = P2()
        try:
            u = G.find_unit_vector_on_plane(_arr(c, n))
        finally:
            G.np = saved
    else:
        u = G.find_unit_vector_on_plane(_arr(c, n))
    from symv.api import flat

    u = flat(u)
    c.prove_eq("unit_vector.perpendicular", u[0] * n[0] + u[1] * n[1] + u[2] * n[2], 0)
    c.prove_eq("unit_vector.unit", u[0] * u[0] + u[1] * u[1] + u[2] * u[2], 1)


REACH = {"two_spheres": ["disjoint_or_tangent", "nested", "lens"],
         "sphere_frustum": ["narrowing.frustum_inside_sphere", "narrowing.crossing_below_top", "narrowing.tall", "widening.short", "widening.tall"]}
_SF_Q = [dict(axis=0, sign=1, end=1), dict(axis=2, sign=-1, end=2)]
_SF_T = [dict(axis=a, sign=s, end=e) for a in range(3) for s in (1, -1) for e in (1, 2)]
HARNESSES = [
    H("solids", h_solids, quick=[dict()], thorough=[dict()], functions=FUNCTIONS, bounds="all r>0, 0<=h<=2r, r1,r2>0, any two end points"),
    H("two_spheres", h_two_spheres, quick=[dict()], thorough=[dict()], functions=FUNCTIONS, bounds="all radii > 0, any two centres (distance >= 0): disjoint, tangent, lens, nested, concentric"),
    H("sphere_frustum", h_sphere_frustum, quick=_SF_Q, thorough=_SF_T, functions=FUNCTIONS, opts=dict(oblig_timeout_ms=dict(quick=120000, thorough=300000)),
      bounds="all radii > 0, height > 0, sphere centre anywhere; axis along +x / -z (quick), all six coordinate directions x both concentric ends (thorough); perpendicular vector any unit vector of the normal plane"),
    H("unit_vector", h_unit_vector, quick=[dict()], thorough=[dict()], functions=FUNCTIONS, bounds="any unit normal, any accepted random draw in [0,1]^3 not parallel to it (the redraw loop itself is not analysed)", opts=dict(oblig_timeout_ms=dict(quick=60000, thorough=300000)), expect_outside=True),
]
