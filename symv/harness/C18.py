"""C18 - topology diagnosis and root repair tell the truth about any parent table."""
import io
import warnings

import numpy as np

from symv.api import And, Implies, Not, Or, dist, dist2, eq, le
from symv.engine import PathAbort
from symv.runner import Direct, H
from symv.trees import reals

FUNCTIONS = ["swcgeom.utils.dsu.DisjointSetUnion.__init__", "find_parent", "union_sets", "is_same_set", "validate_node",
             "swcgeom.core.swc_utils.base.get_dsu", "swcgeom.core.swc_utils.checker.is_single_root", "is_bifurcate", "is_sorted", "has_cyclic",
             "swcgeom.core.swc_utils.normalizer.mark_roots_as_somas_", "mark_roots_as_somas", "link_roots_to_nearest_", "link_roots_to_nearest", "reset_index_", "reset_index",
             "swcgeom.core.swc_utils.io.read_swc(fix_roots=...)", "swcgeom.core.tree.Tree.from_swc(fix_roots=...)"]
ASSUMPTIONS = ["DSU inductive step: the pre-state is ANY state satisfying the representation invariant (parent pointers acyclic up to self-loops at roots, rank[parent] > rank[child]); histories of any length follow by induction",
               "has_cyclic / is_sorted are checked on their documented domain (ids = positions; is_sorted: tree rooted at node 0)",
               "link_roots_to_nearest: points in general position (the nearest candidate is unique); floats as reals",
               "somas mode: the type of a re-linked root may be kept or set to update_type (both readings of the docstring accepted)"]
OUTSIDE = ["tables above the node bound", "ids >= 2^31", "IEEE rounding in the distance comparison of 'nearest'"]


# --------------------------------------------------------------------------- (a) disjoint set union


def _ref_root(par, i):
    k = 0
    while par[i] != i:
        i = par[i]
        k += 1
        if k > len(par):
            return None
    return i


def _dsu_state(c, n):
    from swcgeom.utils import DisjointSetUnion

    par = [c.choice(f"e{i}", n) for i in range(n)]
    roots = [_ref_root(par, i) for i in range(n)]
    if any(r is None for r in roots):
        raise PathAbort()  # not a valid representation (cycle)
    rank = [c.int(f"k{i}", 0, n) for i in range(n)]
    c.assume(And(*[rank[par[i]] > rank[i] for i in range(n) if par[i] != i]) if any(par[i] != i for i in range(n)) else True)
    d = DisjointSetUnion.__new__(DisjointSetUnion)
    d.element_parent = list(par)
    d.rank = list(rank)
    return d, par, rank, roots


def _invariant(c, tag, d, n):
    par = [int(p) for p in d.element_parent]
    roots = [_ref_root(par, i) for i in range(n)]
    c.prove(f"{tag}.inv.acyclic", all(r is not None for r in roots) and len(par) == n and all(0 <= p < n for p in par))
    nr = [i for i in range(n) if par[i] != i]
    c.prove(f"{tag}.inv.rank", And(*[d.rank[par[i]] > d.rank[i] for i in nr]) if nr else True)
    return roots


def h_dsu_step(c, n, op):
    """One operation from an arbitrary valid state (inductive step)."""
    d, par, rank, pre = _dsu_state(c, n)
    a = c.choice("a", n)
    b = c.choice("b", n)
    if op == "union":
        d.union_sets(a, b)
        post = _invariant(c, "union", d, n)
        if any(r is None for r in post):
            return
        want = lambda i, j: pre[i] == pre[j] or (pre[i] == pre[a] and pre[j] == pre[b]) or (pre[i] == pre[b] and pre[j] == pre[a])
        c.prove("union.classes", all((post[i] == post[j]) == want(i, j) for i in range(n) for j in range(n)))
        c.reachable("union.merge", pre[a] != pre[b])
        c.reachable("union.noop", pre[a] == pre[b])
    elif op == "find":
        r = d.find_parent(a)
        c.prove("find.root", int(r) == pre[a])
        post = _invariant(c, "find", d, n)
        c.prove("find.classes_unchanged", post == pre)
        c.prove("find.rank_unchanged", And(*[eq(x, y) for x, y in zip(d.rank, rank)]))
    else:
        ans = d.is_same_set(a, b)
        c.prove("same.answer", bool(ans) == (pre[a] == pre[b]))
        post = _invariant(c, "same", d, n)
        c.prove("same.classes_unchanged", post == pre)
    c.output("parents", [int(p) for p in d.element_parent])


def h_dsu_history(c, n, k):
    """Histories from the initial state: every sequence of k union/find/same operations."""
    from swcgeom.utils import DisjointSetUnion

    d = DisjointSetUnion(n)
    c.prove("init.singletons", [int(p) for p in d.element_parent] == list(range(n)) and [int(r) for r in d.rank] == [0] * n)
    lab = list(range(n))  # ghost labelling: connected by the unions performed so far

    def merge(a, b):
        la, lb = lab[a], lab[b]
        for i in range(n):
            if lab[i] == lb:
                lab[i] = la

    for s in range(k):
        op = c.pick(f"op{s}", ["union", "same", "find"])
        a = c.choice(f"a{s}", n)
        b = c.choice(f"b{s}", n) if op != "find" else 0
        if op == "union":
            d.union_sets(a, b)
            merge(a, b)
        elif op == "same":
            c.prove(f"hist.same.{s}", bool(d.is_same_set(a, b)) == (lab[a] == lab[b]))
        else:
            r = int(d.find_parent(a))
            c.prove(f"hist.find.{s}", lab[r] == lab[a] and int(d.find_parent(r)) == r)
    c.prove("hist.final", all(bool(d.is_same_set(i, j)) == (lab[i] == lab[j]) for i in range(n) for j in range(n)))
    c.output("labels", list(lab))


def h_dsu_validate(c, n):
    from swcgeom.utils import DisjointSetUnion

    d = DisjointSetUnion(n)
    a = c.concretize(c.int("a", -2, n + 1))
    b = c.concretize(c.int("b", -2, n + 1))
    ok = 0 <= a < n and 0 <= b < n
    c.prove("validate.a", bool(d.validate_node(a)) == (0 <= a < n))
    raised = False
    try:
        d.union_sets(a, b)
    except (AssertionError, IndexError):
        raised = True
    c.prove("union.rejects_out_of_range", raised == (not ok))
    if not ok:
        c.prove("union.rejected_leaves_state", [int(p) for p in d.element_parent] == list(range(n)))


# --------------------------------------------------------------------------- (b) checkers on every parent table


def _components(n, pid):
    lab = list(range(n))
    for i, p in enumerate(pid):
        if p >= 0:
            a, b = lab[i], lab[p]
            lab = [a if x == b else x for x in lab]
    return lab


def _has_cycle(n, pid):
    for i in range(n):
        j, k = i, 0
        while j != -1 and k <= n:
            j = pid[j]
            k += 1
        if j != -1:
            return True
    return False


def h_checkers(c, n, base, order):
    import pandas as pd

    from swcgeom.core.swc_utils import has_cyclic, is_bifurcate, is_single_root, is_sorted

    pid = [c.choice(f"p{i}", n + 1) - 1 for i in range(n)]  # every function nodes -> {none} + nodes
    rows = list(range(n)) if order == "id" else list(range(n - 1, -1, -1))
    ids = [base + i for i in rows]
    pids = [-1 if pid[i] == -1 else base + pid[i] for i in rows]
    df = pd.DataFrame({"id": np.array(ids, dtype=np.int32), "pid": np.array(pids, dtype=np.int32)})
    lab = _components(n, pid)
    connected = len(set(lab)) == 1
    cyc = _has_cycle(n, pid)
    nroots = sum(1 for p in pid if p == -1)
    c.prove("is_single_root", bool(is_single_root(df)) == connected, f"pid={pid} connected={connected}")
    if not cyc:
        c.prove("is_single_root.acyclic_means_one_root", bool(is_single_root(df)) == (nroots == 1))
    c.prove("frame.untouched", [int(v) for v in df["id"]] == ids and [int(v) for v in df["pid"]] == pids)
    topo = (np.array(ids, dtype=np.int32), np.array(pids, dtype=np.int32))
    nch = {i: sum(1 for p in pid if p == i) for i in range(n)}
    for ex in (True, False):
        want = all(nch[i] <= 2 or (ex and pid[i] == -1) for i in range(n))
        c.prove(f"is_bifurcate.exclude_root={ex}", bool(is_bifurcate(topo, exclude_root=ex)) == want, f"pid={pid}")
    c.prove("is_bifurcate.default_excludes_root", bool(is_bifurcate(topo)) == bool(is_bifurcate(topo, exclude_root=True)))
    if base == 0 and order == "id":
        c.prove("has_cyclic", bool(has_cyclic(topo)) == cyc, f"pid={pid}")
        tree0 = pid[0] == -1 and nroots == 1 and not cyc
        if tree0:
            c.prove("is_sorted", bool(is_sorted(topo)) == all(pid[i] < i for i in range(n)), f"pid={pid}")
            c.reachable("unsorted_tree", not all(pid[i] < i for i in range(n)))
    c.reachable("cyclic", cyc)
    c.reachable("forest", nroots > 1)
    c.reachable("trifurcation", any(v > 2 for v in nch.values()))
    c.output("pid", pid)


# --------------------------------------------------------------------------- (c) root repair


def _forest(c, n, first_root_row0=True):
    """Parent table (rows) of a forest with at least two roots."""
    par = []
    for i in range(n):
        par.append(c.choice(f"q{i}", n + 1) - 1)
    if first_root_row0 and par[0] != -1:
        raise PathAbort()
    if _has_cycle(n, par) or sum(1 for p in par if p == -1) < 2:
        raise PathAbort()
    return par


def _frame(c, n, par, base, sym_xyz=True):
    import pandas as pd

    sym = c.mode == "sym"
    mk = (lambda v: pd.Series(v, dtype=object)) if sym else (lambda v: pd.Series([float(q) for q in v], dtype=np.float64))
    xyz = {k: reals(c, k, n) for k in "xyz"}
    rs = [0.5 + i for i in range(n)]
    types = [2 + (i % 3) for i in range(n)]
    df = pd.DataFrame({"id": [base + i for i in range(n)], "type": types, "x": mk(xyz["x"]), "y": mk(xyz["y"]), "z": mk(xyz["z"]), "r": rs,
                       "pid": [-1 if p == -1 else base + p for p in par], "tag": list(range(n))})
    return df, xyz, rs, types


def _nearest_reference(c, n, par, P):
    """Expected new parent (row) of every extra root, as conditions: processes the extra roots in row
    order, each links to the nearest node outside its current component."""
    lab = _components(n, par)
    roots = [i for i in range(n) if par[i] == -1]
    expect = {}
    return lab, roots


def h_repair_frame(c, n, base, mode):
    """mark_roots_as_somas(_) / link_roots_to_nearest(_) on a table with symbolic coordinates."""
    from swcgeom.core.swc_utils import (is_single_root, link_roots_to_nearest, link_roots_to_nearest_, mark_roots_as_somas, mark_roots_as_somas_)

    par = _forest(c, n, first_root_row0=False)
    df, xyz, rs, types = _frame(c, n, par, base)
    roots = [i for i in range(n) if par[i] == -1]
    first = roots[0]
    inplace = c.pick("inplace", [False, True])
    P = lambda i: (xyz["x"][i], xyz["y"][i], xyz["z"][i])
    if mode == "nearest":
        # general position: pairwise distances from each extra root are distinct
        for r in roots[1:]:
            others = [j for j in range(n) if j != r]
            c.assume(And(*[Not(eq(dist2(P(r), P(u)), dist2(P(r), P(v)))) for ui, u in enumerate(others) for v in others[:ui]]) if len(others) > 1 else True)
    fn_, fn = (mark_roots_as_somas_, mark_roots_as_somas) if mode == "somas" else (link_roots_to_nearest_, link_roots_to_nearest)
    if inplace:
        out = df.copy()
        fn_(out)
    else:
        out = fn(df)
        c.prove("repair.input_untouched", [int(v) for v in df["pid"]] == [-1 if p == -1 else base + p for p in par] and [int(v) for v in df["type"]] == types)
    opid = [int(v) for v in out["pid"]]
    new_par = [-1 if p == -1 else p - base for p in opid]
    c.prove("repair.rows_kept", [int(v) for v in out["tag"]] == list(range(n)) and [int(v) for v in out["id"]] == [base + i for i in range(n)])
    c.prove("repair.single_root", sum(1 for p in new_par if p == -1) == 1 and new_par[first] == -1, f"pids {opid}")
    c.prove("repair.is_single_root", bool(is_single_root(out)))
    c.prove("repair.acyclic", not _has_cycle(n, new_par) if all(-1 <= p < n for p in new_par) else False)
    c.prove("repair.edges_kept", all(new_par[i] == par[i] for i in range(n) if par[i] != -1))
    c.prove("repair.attrs_kept", And(*[eq(a, b) for k in "xyz" for a, b in zip(list(out[k]), xyz[k])]))
    c.prove("repair.radius_kept", [float(v) for v in out["r"]] == rs)
    otypes = [int(v) for v in out["type"]]
    c.prove("repair.types_kept", all(otypes[i] == types[i] or (mode == "somas" and i in roots[1:] and otypes[i] == 1) for i in range(n)))
    if mode == "somas":
        c.prove("somas.linked_to_first_root", all(new_par[r] == first for r in roots[1:]))
    else:
        lab = _components(n, par)
        for r in roots[1:]:
            tgt = new_par[r]
            outside = [j for j in range(n) if lab[j] != lab[r]]
            c.prove(f"nearest.outside_own_component.{r}", tgt in outside, f"root {r} linked to {tgt}, component {[j for j in range(n) if lab[j] == lab[r]]}")
            if tgt in outside:
                # phrased on the distances themselves: the square roots are the hash-consed ones the code compared
                c.prove(f"nearest.is_nearest.{r}", And(*[le(dist(P(tgt), P(r)), dist(P(j), P(r))) for j in outside]))
                lt, lr = lab[tgt], lab[r]
                lab = [lt if x == lr else x for x in lab]
    c.reachable("three_roots", len(roots) >= 3)
    c.reachable("first_root_not_row0", first != 0)
    c.output("pid", opid)


def h_repair_file(c, n, base, mode):
    """read_swc / Tree.from_swc on a multi-root file (concrete text)."""
    from swcgeom.core import Tree
    from swcgeom.core.swc_utils import is_single_root, read_swc

    par = _forest(c, n)
    # concrete sentinel coordinates in general position
    xs = [0.0, 10.0, 3.0, 7.5, -4.0][:n]
    ys = [0.0, 1.0, 8.0, -6.0, 2.5][:n]
    zs = [0.0, -2.0, 0.5, 4.0, 9.0][:n]
    perm = c.choice("geom", 2)
    if perm:
        xs, ys, zs = ys[::-1], zs[::-1], xs[::-1]
    rs = [0.5 + i for i in range(n)]
    types = [2 + (i % 3) for i in range(n)]
    lines = [f"{base + i} {types[i]} {xs[i]} {ys[i]} {zs[i]} {rs[i]} {-1 if par[i] == -1 else base + par[i]}\n" for i in range(n)]
    text = "# multi root\n" + "".join(lines)
    roots = [i for i in range(n) if par[i] == -1]
    with warnings.catch_warnings(record=True) as w:
        warnings.simplefilter("always")
        df, comments = read_swc(io.StringIO(text), fix_roots=mode)
    msgs = [str(x.message) for x in w]
    c.prove("file.rows", len(df) == n and [int(v) for v in df["id"]] == list(range(n)), f"ids {list(df['id'])}")
    if len(df) != n:
        return
    new_par = [int(v) for v in df["pid"]]
    c.prove("file.comments", [s.strip() for s in comments] == ["multi root"])
    c.prove("file.attrs", [float(v) for v in df["x"]] == xs and [float(v) for v in df["y"]] == ys and [float(v) for v in df["z"]] == zs and [float(v) for v in df["r"]] == rs)
    c.prove("file.edges_kept", all(new_par[i] == par[i] for i in range(n) if par[i] != -1), f"{new_par} vs {par}")
    otypes = [int(v) for v in df["type"]]
    if mode is False:
        c.prove("off.roots_stay_roots", all(new_par[r] == -1 for r in roots), f"{new_par}")
        c.prove("off.warns", any("not a simple tree" in m for m in msgs), f"{msgs}")
        c.prove("off.types", otypes == types)
    else:
        c.prove("fix.single_root", sum(1 for p in new_par if p == -1) == 1 and new_par[0] == -1, f"{new_par}")
        c.prove("fix.is_single_root", bool(is_single_root(df)))
        c.prove("fix.no_warning", not any("not a simple tree" in m for m in msgs), f"{msgs}")
        c.prove("fix.types", all(otypes[i] == types[i] or (mode == "somas" and i in roots[1:] and otypes[i] == 1) for i in range(n)))
        if mode == "somas":
            c.prove("somas.linked_to_first_root", all(new_par[r] == 0 for r in roots[1:]))
        else:
            lab = _components(n, par)
            d2 = lambda i, j: (xs[i] - xs[j]) ** 2 + (ys[i] - ys[j]) ** 2 + (zs[i] - zs[j]) ** 2
            for r in roots[1:]:
                outside = [j for j in range(n) if lab[j] != lab[r]]
                want = min(outside, key=lambda j: d2(r, j))
                c.prove(f"nearest.target.{r}", new_par[r] == want, f"root {r}: linked to {new_par[r]}, nearest outside is {want}")
                lt, lr = lab[want], lab[r]
                lab = [lt if x == lr else x for x in lab]
        # the repaired file loads as a tree whose node 0 is the only root
        with warnings.catch_warnings():
            warnings.simplefilter("ignore")
            t = Tree.from_swc(io.StringIO(text), fix_roots=mode)
        tp = [int(v) for v in t.pid()]
        c.prove("fix.tree", t.number_of_nodes() == n and tp == new_par)
    c.output("pid", new_par)


def h_reset_index(c, n, base):
    """reset_index(_) on any forest with any id base: ids shifted so that the first root is 0, -1 markers kept."""
    import pandas as pd

    from swcgeom.core.swc_utils import reset_index, reset_index_

    par = [c.choice(f"q{i}", n + 1) - 1 for i in range(n)]
    if _has_cycle(n, par) or not any(p == -1 for p in par):
        raise PathAbort()
    first = [i for i in range(n) if par[i] == -1][0]
    df = pd.DataFrame({"id": [base + i for i in range(n)], "type": [3] * n, "x": [float(i) for i in range(n)], "y": [0.0] * n, "z": [0.0] * n, "r": [1.0] * n,
                       "pid": [-1 if p == -1 else base + p for p in par]})
    inplace = c.pick("inplace", [False, True])
    if inplace:
        out = df.copy()
        reset_index_(out)
    else:
        out = reset_index(df)
        c.prove("reset.input_untouched", [int(v) for v in df["id"]] == [base + i for i in range(n)])
    c.prove("reset.ids", [int(v) for v in out["id"]] == [i - first for i in range(n)], f"{list(out['id'])}")
    c.prove("reset.pids", [int(v) for v in out["pid"]] == [-1 if p == -1 else p - first for p in par], f"{list(out['pid'])} for {par}")
    c.prove("reset.attrs", [float(v) for v in out["x"]] == [float(i) for i in range(n)])
    c.reachable("several_roots", sum(1 for p in par if p == -1) > 1)


REACH = {"dsu_step": ["union.merge", "union.noop"], "checkers": ["cyclic", "forest", "trifurcation", "unsorted_tree"], "repair_frame": ["three_roots", "first_root_not_row0"],
         "reset_index": ["several_roots"]}
_B = (0, 1, 5)
def d_scale(tier):
    """Auxiliary, NOT solver-based: the checkers on tables of 3000 nodes (a long neurite plus a late row that points back near its start)."""
    import time

    import numpy as np

    from swcgeom.core.swc_utils import has_cyclic, is_single_root, is_sorted
    from swcgeom.utils.dsu import DisjointSetUnion

    out = []
    t0 = time.time()
    n = 3000
    ids = np.arange(n, dtype=np.int32)
    cases = {"neurite_then_branch_at_5": [-1] + list(range(n - 2)) + [5], "neurite_then_second_child_of_root": [-1] + list(range(n - 2)) + [0],
             "long_cycle": [-1] + [n - 1] + list(range(1, n - 1))}
    truth = {"neurite_then_branch_at_5": False, "neurite_then_second_child_of_root": False, "long_cycle": True}
    for name, pid in cases.items():
        try:
            got = bool(has_cyclic((ids, np.array(pid, dtype=np.int32))))
            ok, detail = got == truth[name], f"has_cyclic={got}, truth {truth[name]}"
        except RecursionError as e:
            ok, detail = False, "RecursionError"
        out.append(dict(name="aux.has_cyclic_3000." + name, status="discharged" if ok else "violated", detail=detail, solver_s=0.0, sample=dict(kind="auxiliary_non_solver", detail=detail),
                        replay=dict(reproduced=True, why=detail)))
    try:
        d = DisjointSetUnion(n)
        for i in range(1, n):
            d.union_sets(i - 1, i)
        ok = d.is_same_set(0, n - 1) and all(d.find_parent(i) == d.find_parent(0) for i in (1, n // 2, n - 1))
        detail = f"chain of {n} unions: same set {ok}"
    except RecursionError:
        ok, detail = False, "RecursionError in DisjointSetUnion"
    out.append(dict(name="aux.dsu_chain_3000", status="discharged" if ok else "violated", detail=detail, solver_s=0.0, sample=dict(kind="auxiliary_non_solver", detail=detail, wall_s=round(time.time() - t0, 2)),
                    replay=dict(reproduced=True, why=detail)))
    return out


def replay_direct(blob):
    r = d_scale("quick")
    return dict(reproduced=any(x["status"] == "violated" for x in r), results=r)


HARNESSES = [
    H("dsu_step", h_dsu_step, quick=[dict(n=k, op=o) for k in (2, 3, 4) for o in ("union", "find", "same")], thorough=[dict(n=k, op=o) for k in (2, 3, 4) for o in ("union", "find", "same")] + [dict(n=5, op="find"), dict(n=5, op="same")], functions=FUNCTIONS,
      bounds="n<=4 elements (thorough: n=5 for find / is_same_set); every valid parent-pointer forest, ranks symbolic integers under the invariant; arguments symbolic", validate=True),
    H("dsu_history", h_dsu_history, quick=[dict(n=3, k=3), dict(n=4, k=2)], thorough=[dict(n=3, k=3), dict(n=4, k=2)], functions=FUNCTIONS,
      bounds="every sequence of k<=3 (n=3) / 2 (n=4) operations (quick), k<=3 (n=4) (thorough) from the initial state"),
    H("dsu_validate", h_dsu_validate, quick=[dict(n=3)], thorough=[dict(n=3), dict(n=4)], functions=FUNCTIONS, bounds="arguments in [-2, n+1]"),
    H("checkers", h_checkers, quick=[dict(n=k, base=b, order=o) for k in (1, 2, 3) for b in _B for o in ("id", "rev")] + [dict(n=4, base=0, order="id"), dict(n=4, base=5, order="rev")],
      thorough=[dict(n=k, base=b, order=o) for k in (1, 2, 3) for b in _B for o in ("id", "rev")] + [dict(n=4, base=0, order="id"), dict(n=4, base=5, order="rev"), dict(n=4, base=1, order="id"), dict(n=5, base=0, order="id")], functions=FUNCTIONS,
      bounds="EVERY function {0..n-1} -> {none}+{0..n-1} (forests, cycles, self-loops) for n<=4 (quick) / 5 with id base 0 (thorough); id base 0/1/5; rows in id or reverse order"),
    H("repair_frame", h_repair_frame, quick=[dict(n=3, base=b, mode=m) for b in (0, 5) for m in ("somas", "nearest")] + [dict(n=4, base=1, mode="somas")],
      thorough=[dict(n=3, base=b, mode=m) for b in (0, 5) for m in ("somas", "nearest")] + [dict(n=4, base=1, mode="somas")], functions=FUNCTIONS,
      bounds="every forest with >=2 roots on n<=3-4 rows (first root anywhere), symbolic real coordinates, in-place and copying forms"),
    H("repair_file", h_repair_file, quick=[dict(n=3, base=b, mode=m) for b in _B for m in (False, "somas", "nearest")] + [dict(n=4, base=1, mode=m) for m in (False, "nearest")],
      thorough=[dict(n=4, base=b, mode=m) for b in (0, 5) for m in (False, "somas", "nearest")] , functions=FUNCTIONS,
      bounds="every forest with >=2 roots (row 0 a root) on n<=3-4 (quick)/4 rows written as SWC text with id base 0/1/5; two concrete coordinate layouts"),
    H("reset_index", h_reset_index, quick=[dict(n=3, base=b) for b in _B], thorough=[dict(n=3, base=b) for b in _B] + [dict(n=4, base=0)], functions=FUNCTIONS, bounds="every forest on n<=3/4 rows, id base 0/1/5"),
    Direct("scale", d_scale, functions=FUNCTIONS, bounds="auxiliary concrete runs on 3000-node tables (not a solver claim)"),
]
