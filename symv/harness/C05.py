"""C05 - node renumbering is a pure relabelling with parents before children."""
import io

import numpy as np

from symv.api import And, eq, flat
from symv.engine import PathAbort
from symv.runner import H
from symv.trees import col, mk_col, reals, sym_tree, topology

FUNCTIONS = ["swcgeom.core.swc_utils.normalizer.sort_nodes_impl", "sort_nodes_", "sort_nodes", "swcgeom.core.tree_utils._sort_tree", "sort_tree",
             "swcgeom.core.swc_utils.io.read_swc(sort_nodes=True)", "swcgeom.core.swc_utils.checker.is_sorted"]
ASSUMPTIONS = ["single-rooted input (documented precondition of sort_nodes_impl)", "ids distinct", "floats as reals",
               "file form: attribute values are concrete decimal sentinels (text cannot carry symbolic reals); table and tree forms: symbolic reals"]
OUTSIDE = ["tables above the node bound", "ids >= 2^31"]


def _table(c, n, gap):
    """Arbitrary single-rooted table: row i holds node i of an arbitrary rooted tree on the rows
    (root row anywhere), ids = an injective labelling drawn from [0, n+gap)."""
    root = c.choice("root", n)
    par = []
    for i in range(n):
        par.append(-1 if i == root else c.choice(f"q{i}", n))
    for i in range(n):  # acyclic, all reach root
        j, k = i, 0
        while j != root:
            j = par[j]
            k += 1
            if j == -1 or k > n:
                raise PathAbort()
    ids = []
    for i in range(n):
        v = c.choice(f"id{i}", n + gap)
        if v in ids:
            raise PathAbort()
        ids.append(v)
    pids = [-1 if p == -1 else ids[p] for p in par]
    return root, par, ids, pids


def _check_relabelling(c, tag, n, par, new_pid, rows, cols_in, cols_out):
    """rows[j] = input row of output node j."""
    rows = [int(r) for r in rows]
    new_pid = [int(p) for p in new_pid]
    c.prove(f"{tag}.bijection", sorted(rows) == list(range(n)))
    if sorted(rows) != list(range(n)):
        return
    c.prove(f"{tag}.root_is_0", new_pid[0] == -1 and par[rows[0]] == -1)
    c.prove(f"{tag}.parent_relation", all((new_pid[j] == -1 and par[rows[j]] == -1) or (new_pid[j] >= 0 and rows[new_pid[j]] == par[rows[j]]) for j in range(n)))
    c.prove(f"{tag}.parents_first", all(new_pid[j] < j for j in range(n)))
    for k in cols_in:
        vi, vo = cols_in[k], cols_out[k]
        c.prove(f"{tag}.column.{k}", And(*[eq(vo[j], vi[rows[j]]) for j in range(n)]))


def h_impl(c, n, gap):
    from swcgeom.core.swc_utils import is_sorted, sort_nodes_impl

    root, par, ids, pids = _table(c, n, gap)
    (new_ids, new_pids), indices = sort_nodes_impl((np.array(ids, dtype=np.int32), np.array(pids, dtype=np.int32)))
    c.prove("impl.ids_are_positions", [int(v) for v in new_ids] == list(range(n)))
    _check_relabelling(c, "impl", n, par, new_pids, indices, {}, {})
    c.prove("impl.is_sorted", bool(is_sorted((new_ids, new_pids))))
    c.output("indices", [int(i) for i in indices])


def h_frame(c, n, gap):
    import pandas as pd

    from swcgeom.core.swc_utils import is_sorted, sort_nodes, sort_nodes_

    root, par, ids, pids = _table(c, n, gap)
    sym = c.mode == "sym"
    cols = {k: reals(c, k, n) for k in ("x", "y", "r", "w")}
    kcol = list(range(n))
    big = [2**53 + 1 + 2 * i for i in range(n)]  # 64-bit keys: not representable as float64
    mk = (lambda v: pd.Series(v, dtype=object)) if sym else (lambda v: pd.Series([float(q) for q in v], dtype=np.float64))
    df = pd.DataFrame({"id": ids, "type": [(3 * i + 1) % 5 for i in range(n)], "x": mk(cols["x"]), "y": mk(cols["y"]), "z": [float(i) for i in range(n)],
                       "r": mk(cols["r"]), "pid": pids, "w": mk(cols["w"]), "k": kcol, "key": np.array(big, dtype=np.int64)})
    cols_in = dict(cols, type=list(df["type"]), z=list(df["z"]), key=[int(v) for v in df["key"]])
    inplace = c.pick("inplace", [False, True])
    if inplace:
        out = df.copy()
        sort_nodes_(out)
    else:
        out = sort_nodes(df)
        c.prove("frame.input_untouched", list(df["id"]) == ids and list(df["pid"]) == pids and list(df["k"]) == kcol)
    rows = [int(v) for v in out["k"]]
    c.prove("frame.ids_are_positions", [int(v) for v in out["id"]] == list(range(n)))
    _check_relabelling(c, "frame", n, par, list(out["pid"]), rows, cols_in, {k: ([int(v) for v in out[k]] if k == "key" else list(out[k])) for k in cols_in})
    c.prove("frame.is_sorted", bool(is_sorted((out["id"].to_numpy(), out["pid"].to_numpy()))))
    # sorting the sorted result: still a pure relabelling of the result (sibling order may change)
    out2 = sort_nodes(out)
    par1 = [int(p) for p in out["pid"]]
    rows2 = [rows.index(int(v)) for v in out2["k"]]
    _check_relabelling(c, "frame.again", n, par1, list(out2["pid"]), rows2, {k: ([int(v) for v in out[k]] if k == "key" else list(out[k])) for k in cols_in}, {k: ([int(v) for v in out2[k]] if k == "key" else list(out2[k])) for k in cols_in})
    c.output("rows", rows)


def h_tree(c, n):
    from swcgeom.core import Tree, sort_tree
    from swcgeom.core.swc_utils import is_sorted

    pid = topology(c, n, "any")
    a = {k: reals(c, k, n) for k in ("x", "y", "z", "r", "w")}
    shared = mk_col(c, a["w"])  # two per-node columns given as ONE array object (e.g. weight = r_orig = radius)
    a["w2"] = a["w"]
    t = Tree(n, pid=np.array(pid, dtype=np.int32), type=np.array([(3 * i + 1) % 5 for i in range(n)], dtype=np.int32),
             **{k: mk_col(c, a[k]) for k in a if k not in ("w", "w2")}, w=shared, w2=shared, k=np.arange(n, dtype=np.int32))
    out = sort_tree(t)
    c.prove("tree.is_new_object", out is not t and out.ndata is not t.ndata)
    c.prove("tree.input_untouched", [int(v) for v in t.pid()] == pid and [int(v) for v in t.get_ndata("k")] == list(range(n))
            and [int(v) for v in t.id()] == list(range(n)))
    c.prove("tree.input_attrs_untouched", And(*[eq(x, y) for k in a for x, y in zip(col(t, k), a[k])]))
    rows = [int(v) for v in out.get_ndata("k")]
    cols_in = dict(a, type=[int(v) for v in t.type()])
    c.prove("tree.ids_are_positions", [int(v) for v in out.id()] == list(range(n)))
    c.prove("tree.same_keys", sorted(out.keys()) == sorted(t.keys()))
    _check_relabelling(c, "tree", n, pid, out.pid(), rows, cols_in, {k: col(out, k) for k in cols_in})
    c.prove("tree.is_sorted", bool(is_sorted((out.id(), out.pid()))))
    out2 = sort_tree(out)
    rows2 = [rows.index(int(v)) for v in out2.get_ndata("k")]
    _check_relabelling(c, "tree.again", n, [int(p) for p in out.pid()], out2.pid(), rows2, {k: col(out, k) for k in cols_in}, {k: col(out2, k) for k in cols_in})
    c.output("rows", rows)


def h_file(c, n, gap):
    import warnings

    from swcgeom.core import Tree
    from swcgeom.core.swc_utils import is_sorted, read_swc

    root, par, ids, pids = _table(c, n, gap)
    xs = [1.5 + 2 * i for i in range(n)]
    ys = [-0.25 * i for i in range(n)]
    rs = [0.5 + i for i in range(n)]
    ws = [10.0 + i for i in range(n)]
    types = [(3 * i + 1) % 5 for i in range(n)]
    text = "".join(f"{ids[i]} {types[i]} {xs[i]} {ys[i]} {i}.0 {rs[i]} {pids[i]} {ws[i]}\n" for i in range(n))
    with warnings.catch_warnings():
        warnings.simplefilter("ignore")
        df, _ = read_swc(io.StringIO(text), extra_cols=["w"], sort_nodes=True)
        t = Tree.from_swc(io.StringIO(text), sort_nodes=True)
    rows = [int(round(float(v))) for v in df["z"]]
    cols_in = dict(x=xs, y=ys, r=rs, w=ws, type=types)
    c.prove("file.ids_are_positions", [int(v) for v in df["id"]] == list(range(n)))
    _check_relabelling(c, "file", n, par, list(df["pid"]), rows, cols_in, {k: list(df[k]) for k in cols_in})
    c.prove("file.is_sorted", bool(is_sorted((df["id"].to_numpy(), df["pid"].to_numpy()))))
    rows_t = [int(round(float(v))) for v in t.z()]
    _check_relabelling(c, "file.tree", n, par, t.pid(), rows_t, dict(x=xs, r=rs, type=types), dict(x=list(t.x()), r=list(t.r()), type=list(t.type())))
    c.output("rows", rows)


HARNESSES = [
    H("impl", h_impl, quick=[dict(n=k, gap=2) for k in (1, 2, 3)] + [dict(n=4, gap=0)], thorough=[dict(n=4, gap=1), dict(n=5, gap=0)], functions=FUNCTIONS,
      bounds="every rooted tree on the rows (root row anywhere) x every injective id labelling from [0,n+gap): n<=3 gap 2 and n=4 gap 0 (quick); n=4 gap 1, n=5 gap 0 (thorough)"),
    H("frame", h_frame, quick=[dict(n=k, gap=1) for k in (1, 2, 3)], thorough=[dict(n=4, gap=1)], functions=FUNCTIONS,
      bounds="tables as in impl with n<=3 (quick)/4 (thorough), gap 1; columns x,y,r,w symbolic reals, z/type/k concrete; in-place and copying form; second sort"),
    H("tree", h_tree, quick=[dict(n=k) for k in (1, 2, 3, 4)], thorough=[dict(n=5)], functions=FUNCTIONS,
      bounds="every numbering with root 0 of every tree on n<=4 (quick)/5 (thorough) nodes; x,y,z,r,w symbolic reals, extra int column k; second sort"),
    H("file", h_file, quick=[dict(n=k, gap=1) for k in (1, 2, 3)], thorough=[dict(n=4, gap=1)], functions=FUNCTIONS,
      bounds="files built from the tables of impl (n<=3 quick /4 thorough, gap 1), concrete attribute sentinels, extra column w; read_swc and Tree.from_swc with sort_nodes=True"),
]
