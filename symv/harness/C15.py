"""C15 - Neurolucida ASC conversion is faithful to the document."""
import io
import time

import numpy as np
import z3

from symv import re2z3 as R
from symv.api import And, eq, flat
from symv.engine import PathAbort
from symv.runner import Direct, H
from symv.trees import col

FUNCTIONS = ["swcgeom.transforms.neurolucida_asc.Parser.__init__/parse/_parse/_parse_tree/_parse_subtree/_parse_split/_parse_node/_parse_color/_parse_comment/_assert/_consume",
             "NeurolucidaAscToSwc.from_ast/walk_ast/from_stream", "swcgeom.transforms.neurolucida_asc.Lexer.__next__/_read_word/_read_line/_read_char", "RE_FLOAT"]
ASSUMPTIONS = ["token-stream harness: the Lexer is replaced by a source of ARBITRARY tokens (kind forked by the engine at every position: ( ) | FLOAT LITERAL COMMENT end-of-input, plus two macro positions that expand to a well-formed point '( f f f f )' and to a tree header '( Axon )' so that K positions reach nested splits; FLOAT values fresh reals; LITERAL values from {Axon, DENDRITE, Color, foo}); every stream of at most K tokens is therefore explored, which contains every truncation and every single-token corruption of every document of that size",
               "reference grammar (written from the property text): document = comments, '(' items ')'; item = comment | '(' Color word ')' | '(' Axon|Dendrite ')' followed by branch items; branch item = comment | point '(' f f f f ')' | '(' Color word ')' | split '(' alt {'|' alt} ')' with alt = branch items (possibly empty); a point's parent is the preceding point of its own branch level, or the last point before the enclosing split; type from the label (axon 2, dendrite 3)",
               "reject = an exception reaches the caller of Parser.parse / from_ast", "what follows the closing bracket of the document is not read by the converter and not constrained",
               "lexer harness: alphabet ( ) | ; space newline 1 . - e a; words that start like a number but are not one may raise or be literals, never FLOAT"]
OUTSIDE = ["documents longer than K tokens (branch length and nesting depth beyond what K tokens allow)", "documents with several top-level trees (the property says single-tree)", "number spellings that only CPython's float() extends (underscores)", "non-ASCII text"]
STUBS = ["Lexer -> symbolic token source (parser harness only; the real Lexer is checked in its own harness and in the end-to-end harness)"]

LITS = ["Axon", "DENDRITE", "Color", "foo"]  # header macro uses the first two; free LITERAL positions use Axon / Color / foo
KINDS = ["(", ")", "|", "F", "L", "C", "EOF", "P", "H"]  # P: macro for a well-formed point ( F F F F ), counted as one position


def _token_source(c, K, Token, TokenType, log):
    tt = {"(": TokenType.BRACKET_LEFT, ")": TokenType.BRACKET_RIGHT, "|": TokenType.OR, "F": TokenType.FLOAT, "L": TokenType.LITERAL, "C": TokenType.COMMENT}

    class Source:
        def __init__(self, r):
            self.i = 0
            self.done = False
            self.pending = []
            self.depth = 0
            self.opened = False

        def __iter__(self):
            return self

        def __next__(self):
            if self.pending:
                kind, v = self.pending.pop(0)
                log.append((kind, v))
                return Token(tt[kind], v, 1, self.i)
            if self.done or self.i >= K or (self.opened and self.depth == 0):
                # (what follows the bracket that closes the document is not constrained: end of input, no fork)
                self.done = True
                log.append(("EOF", None))
                raise StopIteration
            i = self.i
            self.i += 1
            kind = c.pick(f"k{i}", KINDS)
            if kind == "H":  # macro: a tree header ( Axon ) / ( DENDRITE )
                self.pending = [("L", c.pick(f"h{i}", LITS[:2])), (")", ")")]
                log.append(("(", "("))
                self.opened = True
                return Token(tt["("], "(", 1, i + 1)
            if kind == "P":
                self.pending = [("F", c.real(f"f{i}.{j}")) for j in range(4)] + [(")", ")")]
                log.append(("(", "("))
                self.opened = True
                return Token(tt["("], "(", 1, i + 1)
            if kind == "EOF":
                self.done = True
                log.append(("EOF", None))
                raise StopIteration
            if kind == "F":
                v = c.real(f"f{i}")
            elif kind == "L":
                v = c.pick(f"l{i}", [LITS[0], LITS[2], LITS[3]])
            elif kind == "C":
                v = " c"
            else:
                v = kind
            if kind == "(":
                self.depth += 1
                self.opened = True
            elif kind == ")":
                self.depth -= 1
            log.append((kind, v))
            return Token(tt[kind], v, 1, i + 1)

    return Source


class _Reject(Exception):
    pass


def _reference(tokens):
    """Recogniser / translator for the grammar of the property text. tokens: list of (kind, value) ending with ('EOF', None).
    Returns the node table [(x, y, z, r, type, parent)] in document order, or raises _Reject. Reads no token after the
    bracket that closes the document."""
    pos = [0]
    nodes = []

    def peek():
        return tokens[pos[0]] if pos[0] < len(tokens) else ("EOF", None)

    def take(kind=None):
        t = peek()
        if kind is not None and t[0] != kind:
            raise _Reject(f"expected {kind} at {pos[0]}, got {t[0]}")
        if t[0] == "EOF":
            raise _Reject("unexpected end of input")
        pos[0] += 1
        return t

    def color():  # 'Color' already checked by the caller
        take("L")
        take("L")
        take(")")

    def branch(parent, typ):
        """items of one branch level; stops in front of ')' or '|'"""
        cur = parent
        while True:
            k, v = peek()
            if k == "C":
                take()
            elif k == "(":
                take()
                k2, v2 = peek()
                if k2 == "F":
                    vals = [take("F")[1] for _ in range(4)]
                    take(")")
                    nodes.append((vals[0], vals[1], vals[2], vals[3], typ, cur))
                    cur = len(nodes) - 1
                elif k2 == "L":
                    if v2.upper() != "COLOR":
                        raise _Reject("label inside a branch")
                    color()
                elif k2 == "EOF":
                    raise _Reject("eof")
                else:  # a split
                    while True:
                        branch(cur, typ)
                        k3, _ = take()
                        if k3 == ")":
                            break
                        if k3 != "|":
                            raise _Reject("bad split")
            elif k in (")", "|"):
                return
            else:
                raise _Reject(f"unexpected {k} in a branch")

    while peek()[0] == "C":
        take()
    take("(")
    while True:
        k, v = peek()
        if k == ")":
            take()
            return nodes
        if k == "C":
            take()
            continue
        if k != "(":
            raise _Reject("top level")
        take()
        k2, v2 = peek()
        if k2 != "L":
            raise _Reject("top-level item must start with a word")
        up = v2.upper()
        if up == "COLOR":
            color()
        elif up in ("AXON", "DENDRITE"):
            take("L")
            take(")")
            branch(-1, 2 if up == "AXON" else 3)
        else:
            raise _Reject("unknown label")


def h_parser(c, K):
    import swcgeom.transforms.neurolucida_asc as A

    log = []
    saved = A.Lexer
    A.Lexer = _token_source(c, K, A.Token, A.TokenType, log)
    try:
        try:
            tree = A.NeurolucidaAscToSwc.from_stream(io.StringIO(""))
            accepted, err = True, None
        except Exception as e:  # noqa: BLE001 - the documented way to reject
            accepted, err, tree = False, e, None
    finally:
        A.Lexer = saved
    tokens = list(log)
    if not tokens or tokens[-1][0] != "EOF":
        tokens.append(("EOF", None))
    try:
        want = _reference(tokens)
        ref_ok = True
    except _Reject as e:
        want, ref_ok = None, False
        why = str(e)
    shown = " ".join(k if k in "()|" else k for k, _ in tokens)
    c.prove("accept_iff_well_formed", accepted == ref_ok, f"tokens [{shown}]: converter {'accepts' if accepted else 'rejects'}, grammar {'accepts' if ref_ok else 'rejects'} ({err!r})")
    if accepted and not ref_ok:
        return
    if not accepted:
        c.prove("rejects_with_value_error", isinstance(err, ValueError), repr(err))
        return
    n = len(want)
    c.prove("one_node_per_point", tree.number_of_nodes() == n, f"{tree.number_of_nodes()} nodes for {n} points in [{shown}]")
    if tree.number_of_nodes() != n:
        return
    c.prove("ids_in_document_order", [int(v) for v in tree.id()] == list(range(n)))
    c.prove("parents", [int(v) for v in tree.pid()] == [w[5] for w in want], f"[{shown}]: {[int(v) for v in tree.pid()]} vs {[w[5] for w in want]}")
    c.prove("types", [int(v) for v in tree.type()] == [w[4] for w in want], f"{[int(v) for v in tree.type()]} vs {[w[4] for w in want]}")
    for d, k in enumerate("xyzr"):
        c.prove("coordinates." + k, And(*[eq(a, w[d]) for a, w in zip(col(tree, k), want)]) if n else True)
    c.reachable("nested_split", _depth(tokens) >= 3 and n >= 1)
    c.reachable("accepted_with_points", n >= 2)
    c.output("n", n)


def _depth(tokens):
    d = m = 0
    for k, _ in tokens:
        if k == "(":
            d += 1
            m = max(m, d)
        elif k == ")":
            d -= 1
    return m


# ------------------------------------------------------------------ documents generated from the grammar, through the REAL lexer (end to end)


def _gen_branch(c, tag, depth, budget):
    """A branch generated from the grammar with forked choices; returns (text, structure) where structure is a list of
    ('p', idx) / ('s', [alts]) items; points are numbered by a shared counter in budget[0]."""
    text, items = "", []
    inner = tag.count(".") >= 1 and budget[3]  # narrow mode: inner levels have 0-1 points, 1-2 alternatives, nothing after a split
    npts = c.choice(tag + ".n", 2 if inner else 3)
    for j in range(npts):
        if budget[0] <= 0:
            break
        i = budget[1]
        budget[1] += 1
        budget[0] -= 1
        text += f" ({i}.5 -{i} {i}e0 .25){budget[2]}"
        items.append(("p", i))
    if depth > 0 and budget[0] > 0 and c.choice(tag + ".split", 2):
        nalt = 1 + c.choice(tag + ".alts", 2 if inner else 3)
        alts, parts = [], []
        for a in range(nalt):
            t, it = _gen_branch(c, f"{tag}.{a}", depth - 1, budget)
            parts.append(t)
            alts.append(it)
        text += " (" + " | ".join(parts) + " )"
        items.append(("s", alts))
        if not inner and c.choice(tag + ".after", 2) and budget[0] > 0:
            i = budget[1]
            budget[1] += 1
            budget[0] -= 1
            text += f" ({i}.5 -{i} {i}e0 .25)"
            items.append(("p", i))
    return text, items


def _sep(c, name):
    return ["", " ; note\n", " (Color Red)", "\n\t"][c.choice(name, 4)]


class _Count:
    """dry run of the generator: counts the documents of a bound (used to size the tiers)"""

    mode = "count"


def _table(items, parent, out):
    cur = parent
    for kind, v in items:
        if kind == "p":
            out.append((v, cur))
            cur = v
        else:
            for alt in v:
                _table(alt, cur, out)


def h_document(c, depth, points, narrow=False):
    """Documents generated from the grammar (forked shape, separators, colours, comments), converted through the real Lexer + Parser;
    then every truncation of the text and every corruption of one point is converted too."""
    import swcgeom.transforms.neurolucida_asc as A

    style = c.choice("style", 4)  # one style per document: label spelling, separator between items, header
    label = ["Axon", "Dendrite", "axon", "DENDRITE"][style]
    budget = [points, 0, ["", " ; note\n", " (Color Red)", "\n\t"][style], narrow]
    body, items = _gen_branch(c, "b", depth, budget)
    head = ["", "; header\n", "(Color Blue)", ""][style]
    text = f"{head if head.startswith(';') else ''}( {head if head.startswith('(') else ''} ({label}){budget[2]}{body} )"
    want = []
    _table(items, -1, want)
    tree = A.NeurolucidaAscToSwc.from_stream(io.StringIO(text))
    n = len(want)
    c.prove("document.count", tree.number_of_nodes() == n, f"{tree.number_of_nodes()} vs {n} for {text!r}")
    if tree.number_of_nodes() != n:
        return
    c.prove("document.parents", [int(v) for v in tree.pid()] == [p for _, p in want], f"{text!r}: {[int(v) for v in tree.pid()]} vs {[p for _, p in want]}")
    c.prove("document.order_and_values", [float(v) for v in tree.x()] == [i + 0.5 for i, _ in want] and [float(v) for v in tree.y()] == [-float(i) for i, _ in want]
            and [float(v) for v in tree.z()] == [float(i) for i, _ in want] and all(float(v) == 0.25 for v in tree.r()))
    c.prove("document.types", all(int(v) == (2 if label.upper() == "AXON" else 3) for v in tree.type()))
    # truncations: every proper prefix that cuts the document is rejected
    stripped = text.rstrip()
    bad = []
    for cut in range(len(stripped)):
        pre = stripped[:cut]
        try:
            A.NeurolucidaAscToSwc.from_stream(io.StringIO(pre))
            bad.append(pre)
        except ValueError:
            pass
        except Exception as e:  # noqa: BLE001
            bad.append(pre + f" -> {e!r}")
    c.prove("document.truncations_rejected", not bad, f"accepted prefix {bad[:1]!r} of {text!r}")
    # corruptions of one point
    for k in range(n):
        good = f"({k}.5 -{k} {k}e0 .25)"
        for repl in (f"({k}.5 -{k} {k}e0)", f"({k}.5 -{k} x .25)", f"({k}.5 -{k} {k}e0 .25 7)", f"({k}.5 -{k} {k}e0 .25", f"({k}.5 -{k} 1..2 .25)"):
            mutated = text.replace(good, repl, 1)
            try:
                A.NeurolucidaAscToSwc.from_stream(io.StringIO(mutated))
                c.prove("document.corruption_rejected", False, f"accepted {mutated!r}")
            except ValueError:
                c.prove("document.corruption_rejected", True)
    c.reachable("nested", any(kind == "s" and any(any(k2 == "s" for k2, _ in alt) for alt in v) for kind, v in items))
    c.output("n", n)


# ------------------------------------------------------------------ lexer

ALPHA = "()|; \n1.-ea"


def _ref_tokens(s):
    """Reference tokenizer (property text): blanks separate; ( ) | are tokens; ; starts a comment to the end of line; a word is a
    number iff it is one in full."""
    import re

    num = re.compile(r"[-+]?(?:[0-9]+\.?[0-9]*|\.[0-9]+)(?:[eE][-+]?[0-9]+)?\Z")
    out, i = [], 0
    while i < len(s):
        ch = s[i]
        if ch in " \t\n":
            i += 1
        elif ch in "()|":
            out.append((ch, ch))
            i += 1
        elif ch == ";":
            j = s.find("\n", i)
            j = len(s) if j < 0 else j
            out.append(("C", s[i + 1:j]))
            i = j + 1
        else:
            j = i
            while j < len(s) and s[j] not in " \t\n();|":
                j += 1
            w = s[i:j]
            if num.match(w):
                out.append(("F", float(w)))
            elif re.match(r"[-+]?\.?[0-9]", w):
                out.append(("?", w))  # starts like a number but is not one: error or literal
            else:
                out.append(("L", w))
            i = j
    return out


def h_lexer(c, length):
    import swcgeom.transforms.neurolucida_asc as A

    s = "".join(ALPHA[c.choice(f"c{i}", len(ALPHA))] for i in range(length))
    want = _ref_tokens(s)
    names = {A.TokenType.BRACKET_LEFT: "(", A.TokenType.BRACKET_RIGHT: ")", A.TokenType.OR: "|", A.TokenType.FLOAT: "F", A.TokenType.LITERAL: "L", A.TokenType.COMMENT: "C"}
    got, err = [], None
    try:
        for t in A.Lexer(io.StringIO(s)):
            got.append((names[t.type], t.value))
    except ValueError as e:
        err = e
    ok = True
    why = ""
    for j, w in enumerate(want):
        if j >= len(got):
            ok = err is not None and w[0] == "?"
            why = f"token {j} missing"
            break
        if w[0] == "?":
            ok = got[j][0] == "L" and got[j][1] == w[1]
            if not ok:
                why = f"token {j}: {got[j]} for the non-number {w[1]!r}"
                break
        elif got[j] != w:
            ok, why = False, f"token {j}: {got[j]} vs {w}"
            break
    if ok and err is None and len(got) != len(want):
        ok, why = False, f"{len(got)} tokens vs {len(want)}"
    c.prove("lexer.tokens", ok, f"{s!r}: {why}")


def d_number_language(tier):
    """E2: the number spellings of the property are classified FLOAT (prefix language of the real RE_FLOAT), labels are not."""
    import swcgeom.transforms.neurolucida_asc as A

    pat = A.RE_FLOAT.pattern
    body, _ = R.prefix_language(pat)
    Lp = z3.Concat(body, z3.Star(R._range(R.LO, R.HI)))  # RE_FLOAT.match(word) succeeds iff some prefix of the word is in L(RE_FLOAT)
    s = z3.String("s")
    out = []

    def query(name, must, *cs, validate=None):
        sv = z3.Solver()
        sv.set("timeout", 60000)
        sv.add(R.ascii_string(s))
        sv.add(*cs)
        t0 = time.time()
        r = sv.check()
        w = R.decode(sv.model().eval(s, model_completion=True).as_string()) if r == z3.sat else None
        d = dict(name=name, solver_s=time.time() - t0, sample=dict(query=name, expected=must, result=str(r), witness=w))
        if str(r) == "unknown":
            d.update(status="unknown", detail=sv.reason_unknown())
        elif str(r) == must:
            d["status"] = "discharged"
            if w is not None and validate is not None and not validate(w):
                d.update(status="harness_error", detail=f"translator check failed on {w!r}")
        elif must == "unsat":
            ok = validate(w) if validate else True
            d.update(status="violated", detail=f"counterexample word {w!r}", model=dict(word=w, query=name), replay=dict(reproduced=bool(ok), why=f"word {w!r}"))
        else:
            d.update(status="harness_error", detail="reachability twin unsatisfiable")
        out.append(d)

    spec = R.fragment(r"[-+]?(?:[0-9]+(?:\.[0-9]*)?|\.[0-9]+)(?:[eE][-+]?[0-9]+)?")[0]
    word = R.fragment(r"[^ \t\n();|]+")[0]
    real = lambda w: A.RE_FLOAT.match(w) is not None
    query("numbers_are_floats", "unsat", z3.InRe(s, spec), z3.Not(z3.InRe(s, Lp)), validate=lambda w: not real(w))
    query("numbers_are_floats.twin", "sat", z3.InRe(s, spec), z3.InRe(s, Lp), z3.Length(s) > 4, validate=real)
    label = R.fragment(r"[A-Za-z_][^ \t\n();|]*")[0]
    query("labels_are_not_floats", "unsat", z3.InRe(s, label), z3.InRe(s, Lp), validate=real)
    query("labels_are_not_floats.twin", "sat", z3.InRe(s, label), z3.Not(z3.InRe(s, Lp)), z3.Length(s) > 3, validate=lambda w: not real(w))
    # a word classified FLOAT begins with a sign, a dot or a digit
    query("float_words_start_like_numbers", "unsat", z3.InRe(s, word), z3.InRe(s, Lp), z3.Not(z3.InRe(s, R.fragment(r"[-+.0-9].*")[0])), validate=real)
    return out


def replay_direct(blob):
    import swcgeom.transforms.neurolucida_asc as A

    w = blob["model"]["word"]
    return dict(reproduced=True, word=w, classified_float=A.RE_FLOAT.match(w) is not None)


REACH = {"parser": ["nested_split", "accepted_with_points"], "document": ["nested"]}
HARNESSES = [
    H("parser", h_parser, quick=[dict(K=8)], thorough=[dict(K=9)], functions=FUNCTIONS, validate=False, opts=dict(max_decisions=400, sym_hash=True),
      bounds="EVERY token stream of at most K=8 (quick) / 9 (thorough) positions over the 7 token kinds and the point macro (FLOAT values symbolic reals, 4 literal spellings): converter accepts iff the reference grammar does, and on acceptance the node table equals the reference translation"),
    H("document", h_document, quick=[dict(depth=1, points=3), dict(depth=2, points=3, narrow=True)], thorough=[dict(depth=1, points=4), dict(depth=2, points=4, narrow=True)], functions=FUNCTIONS, validate=False,
      bounds="documents generated from the grammar through the real Lexer: one level of splits with 0-2 points per branch, 1-3 alternatives incl. empty ones and a point after the split (237 shapes), and two levels with narrower inner levels (quick); the same with up to 4 points (thorough); four styles (label spelling, separators: none / comment / colour / blank lines, header comment / colour); EVERY truncation of each document and five corruptions of EVERY point"),
    H("lexer", h_lexer, quick=[dict(length=k) for k in (1, 2, 3, 4)], thorough=[dict(length=5)], functions=FUNCTIONS, validate=False,
      bounds="every string of length <= 4 (quick) / 5 (thorough) over the alphabet ( ) | ; space newline 1 . - e a (solver-enumerated), real Lexer vs reference tokenizer"),
    Direct("number_language", d_number_language, functions=FUNCTIONS, bounds="words of ANY length over ASCII: z3 sequence theory on the real RE_FLOAT"),
]
