"""C06 - subtree extraction and pruning keep exactly the specified nodes."""
import numpy as np

from symv.api import And, dist, eq, flat, total
from symv.runner import H
from symv.trees import children_of, col, descendants, sym_tree

FUNCTIONS = ["swcgeom.core.tree_utils_impl.get_subtree_impl", "to_subtree_impl", "swcgeom.core.swc_utils.subtree.to_sub_topology", "propagate_removal",
             "swcgeom.core.tree_utils.to_subtree", "get_subtree", "cut_tree", "swcgeom.core.tree.Tree.Node.subtree", "Tree.get_neurites", "Tree.get_dendrites",
             "swcgeom.transforms.tree.CutByType", "CutAxonTree", "CutDendriteTree", "CutByFurcationOrder", "CutShortTipBranch"]
ASSUMPTIONS = ["well-formed input tree rooted at node 0 (any numbering otherwise)", "floats as reals",
               "cut callbacks: verdict of every call is an independent symbolic boolean (any callback)",
               "CutByFurcationOrder rule as documented by the class: level counts furcation nodes on the root path, the node itself included, root = level 0",
               "CutShortTipBranch: a tip chain hanging below a furcation is removed iff its length from the furcation is <= threshold (rule of the code's docstring)"]
OUTSIDE = ["results in which the root itself is removed (empty tree): only 'no partial result' is checked", "trees above the node bound"]


def _check_sub(c, tag, t, a, out, kept, mapping=None, extra=("w",)):
    """out must consist of exactly the nodes `kept` (old ids, in increasing old-id order is NOT required)."""
    n_out = out.number_of_nodes()
    c.prove(f"{tag}.count", n_out == len(kept), f"{n_out} nodes, expected {len(kept)}")
    if n_out != len(kept):
        return
    tags = [int(v) for v in out.get_ndata("k")]  # old id carried in an extra int column
    c.prove(f"{tag}.node_set", sorted(tags) == sorted(kept), f"kept {sorted(tags)}, expected {sorted(kept)}")
    if sorted(tags) != sorted(kept):
        return
    c.prove(f"{tag}.ids", [int(v) for v in out.id()] == list(range(n_out)))
    pid_out = [int(v) for v in out.pid()]
    old_pid = a["pid"]
    roots = [j for j in range(n_out) if pid_out[j] == -1]
    c.prove(f"{tag}.one_root", len(roots) == 1 and (n_out == 0 or pid_out[0] == -1))
    ok = True
    for j in range(n_out):
        if pid_out[j] == -1:
            ok = ok and (old_pid[tags[j]] == -1 or old_pid[tags[j]] not in kept)
        else:
            ok = ok and 0 <= pid_out[j] < n_out and tags[pid_out[j]] == old_pid[tags[j]]
    c.prove(f"{tag}.parent_relation", ok)
    for k in ("x", "y", "z", "r") + tuple(extra):
        c.prove(f"{tag}.attr.{k}", And(*[eq(col(out, k)[j], a[k][tags[j]]) for j in range(n_out)]))
    c.prove(f"{tag}.attr.type", [int(v) for v in out.type()] == [a["type"][i] for i in tags])
    if mapping is not None:
        if isinstance(mapping, dict):
            c.prove(f"{tag}.mapping", sorted(mapping) == list(range(n_out)) and all(int(mapping[j]) == tags[j] for j in range(n_out)))
        else:
            c.prove(f"{tag}.mapping", [int(v) for v in mapping] == tags)
    # input untouched
    c.prove(f"{tag}.input_untouched", [int(v) for v in t.pid()] == a["pid"] and [int(v) for v in t.id()] == list(range(len(a["pid"])))
            and [int(v) for v in t.get_ndata("k")] == list(range(len(a["pid"]))))


def _tree(c, n, types=None, mode="any"):
    t, a = sym_tree(c, n, mode=mode, extra=("w",), types=types)
    t.ndata["k"] = np.arange(n, dtype=np.int32)
    return t, a


def h_get_subtree(c, n):
    from swcgeom.core import get_subtree

    t, a = _tree(c, n)
    k = c.choice("start", n)
    form = c.pick("form", ["func_list", "func_dict", "node"])
    if form == "func_list":
        m = []
        out = get_subtree(t, k, out_mapping=m)
    elif form == "func_dict":
        m = {}
        out = get_subtree(t, k, out_mapping=m)
    else:
        m = []
        out = t.node(k).subtree(out_mapping=m)
    _check_sub(c, "subtree", t, a, out, descendants(a["pid"], k), m)
    c.output("n_out", out.number_of_nodes())


def _closure(pid, removed):
    out = set()
    for r in removed:
        out.update(descendants(pid, r))
    return out


def h_to_subtree(c, n):
    from swcgeom.core import to_subtree

    t, a = _tree(c, n)
    removed = [i for i in range(1, n) if c.choice(f"rm{i}", 2)]
    form = c.pick("form", ["list", "dict", "none"])
    m = [] if form == "list" else ({} if form == "dict" else None)
    # `removals` is documented as an Iterable: list, set, ndarray and one-shot iterators must all work
    as_ = c.pick("removals_as", ["list", "set", "ndarray", "generator", "filter"])
    arg = {"list": list(removed), "set": set(removed), "ndarray": np.array(removed, dtype=np.int64), "generator": (i for i in removed), "filter": filter(lambda i: True, list(removed))}[as_]
    out = to_subtree(t, arg, out_mapping=m)
    kept = [i for i in range(n) if i not in _closure(a["pid"], removed)]
    _check_sub(c, "to_subtree", t, a, out, kept, m)
    # a second, different cut of the same tree is not affected by the first one
    removed2 = [i for i in range(1, n) if c.choice(f"rn{i}", 2)]
    out2 = to_subtree(t, removed2)
    _check_sub(c, "to_subtree.second", t, a, out2, [i for i in range(n) if i not in _closure(a["pid"], removed2)])
    c.output("n_out", out.number_of_nodes())


def h_to_subtree_once(c, n):
    """Larger trees under every numbering: a removed node takes its whole subtree with it even when descendants are stored BEFORE it."""
    from swcgeom.core import to_subtree

    t, a = _tree(c, n)
    removed = [i for i in range(1, n) if c.choice(f"rm{i}", 2)]
    out = to_subtree(t, removed)
    kept = [i for i in range(n) if i not in _closure(a["pid"], removed)]
    _check_sub(c, "to_subtree4", t, a, out, kept)
    c.reachable("descendant_stored_before_removed_ancestor", any(d < r for r in removed for d in descendants(a["pid"], r)))


def h_cut_tree(c, n, kind):
    from swcgeom.core import cut_tree

    t, a = _tree(c, n)
    pid = a["pid"]
    verdict = {}
    calls = []
    V = c.uf("V", 2)

    def enter(node, pv):
        i = int(node.id)
        calls.append(i)
        verdict[i] = bool(c.bool(f"cut{i}")) if i != 0 else False
        return (V(i, 0 if pv is None else pv), verdict[i])

    def leave(node, vals):
        i = int(node.id)
        calls.append(i)
        verdict[i] = bool(c.bool(f"cut{i}")) if i != 0 else False
        return (V(i, total(vals) if vals else 0), verdict[i])

    out = cut_tree(t, enter=enter) if kind == "enter" else cut_tree(t, leave=leave)
    removed = [i for i, v in verdict.items() if v]
    kept = [i for i in range(n) if i not in _closure(pid, removed)]
    _check_sub(c, "cut_tree", t, a, out, kept)
    if kind == "enter":
        # the callback is consulted exactly for the nodes all of whose proper ancestors were kept
        want = [i for i in range(n) if all(not verdict.get(j, False) for j in _ancestors(pid, i))]
        c.prove("cut_tree.callback_domain", sorted(calls) == sorted(want))
    else:
        c.prove("cut_tree.callback_domain", sorted(calls) == list(range(n)))
    c.output("n_out", out.number_of_nodes())


def _ancestors(pid, i):
    out = []
    while pid[i] != -1:
        i = pid[i]
        out.append(i)
    return out


def h_cut_by_type(c, n, cls):
    from swcgeom.transforms import CutAxonTree, CutByType, CutDendriteTree

    t, a = _tree(c, n, types=[2, 3, 4])
    if cls == "type":
        ty = c.pick("ty", [2, 3, 4])
        tr = CutByType(ty)
    elif cls == "axon":
        ty, tr = 2, CutAxonTree()
    else:
        ty, tr = 3, CutDendriteTree()
    pid = a["pid"]
    keep = set()
    for i in range(n):
        if a["type"][i] == ty:
            keep.add(i)
            keep.update(_ancestors(pid, i))
    if 0 not in keep:
        try:
            out = tr(t)
            c.prove("by_type.empty_result", out.number_of_nodes() == 0)
        except Exception:  # noqa: BLE001 - an explicit error is accepted for the empty result
            pass
        return
    out = tr(t)
    _check_sub(c, "by_type", t, a, out, sorted(keep))
    out2 = tr(t)  # transform objects are reusable
    _check_sub(c, "by_type.again", t, a, out2, sorted(keep))
    c.output("n_out", out.number_of_nodes())


def h_cut_by_order(c, n):
    from swcgeom.transforms import CutByFurcationOrder

    t, a = _tree(c, n)
    pid = a["pid"]
    ch = children_of(pid)
    k = c.pick("order", [1, 2, 3])
    level = {0: 0}
    order = [0]
    while order:
        i = order.pop()
        for j in ch[i]:
            level[j] = level[i] + (1 if len(ch[j]) > 1 else 0)
            order.append(j)
    removed = [i for i in range(n) if level[i] >= k]
    kept = [i for i in range(n) if i not in _closure(pid, removed)]
    out = CutByFurcationOrder(k)(t)
    _check_sub(c, "by_order", t, a, out, kept)
    c.reachable("something_cut", len(kept) < n)
    c.output("n_out", out.number_of_nodes())


def h_cut_short_tip(c, n):
    from swcgeom.transforms import CutShortTipBranch

    t, a = _tree(c, n)
    pid = a["pid"]
    ch = children_of(pid)
    thre = c.real("thre", lo=0)
    P = lambda i: (a["x"][i], a["y"][i], a["z"][i])
    removed = []
    seen = []
    cut = CutShortTipBranch(thre, callback=lambda br: seen.append([int(v) for v in br.origin_id()]))
    out = cut(t)
    expected_chains = []
    for f in range(n):
        if len(ch[f]) < 2:
            continue
        for k in ch[f]:
            chain = [f, k]
            while len(ch[chain[-1]]) == 1:
                chain.append(ch[chain[-1]][0])
            if len(ch[chain[-1]]) != 0:
                continue  # reaches another furcation first
            length = total(dist(P(u), P(v)) for u, v in zip(chain, chain[1:]))
            if bool(length <= thre):
                removed.append(k)
                expected_chains.append(chain)
    kept = [i for i in range(n) if i not in _closure(pid, removed)]
    _check_sub(c, "short_tip", t, a, out, kept)
    c.prove("short_tip.callback_branches", sorted(seen) == sorted(expected_chains), f"{seen} vs {expected_chains}")
    c.prove("short_tip.callbacks_restored", len(cut.callbacks) == 1)
    c.reachable("something_cut", len(kept) < n)
    c.output("n_out", out.number_of_nodes())


def h_neurites(c, n):
    t, a = _tree(c, n, types=[1, 2, 3, 4], mode="any")
    c.assume(a["type"][0] == 1)
    pid = a["pid"]
    ch = children_of(pid)
    outs = list(t.get_neurites())
    c.prove("neurites.count", len(outs) == len(ch[0]))
    for o, k in zip(outs, sorted(ch[0])):
        _check_sub(c, f"neurites.{k}", t, a, o, descendants(pid, k))
    douts = list(t.get_dendrites())
    dk = [k for k in sorted(ch[0]) if a["type"][k] in (3, 4)]
    c.prove("dendrites.count", len(douts) == len(dk))
    for o, k in zip(douts, dk):
        _check_sub(c, f"dendrites.{k}", t, a, o, descendants(pid, k))


REACH = {"cut_by_order": ["something_cut"], "cut_short_tip": ["something_cut"], "to_subtree_any_numbering_4": ["descendant_stored_before_removed_ancestor"]}
HARNESSES = [
    H("get_subtree", h_get_subtree, quick=[dict(n=k) for k in (1, 2, 3, 4)], thorough=[dict(n=5)], functions=FUNCTIONS, bounds="every numbering (root 0) of every tree with n<=4/5 nodes, every start node, list/dict mapping, function and Node.subtree forms"),
    H("to_subtree", h_to_subtree, quick=[dict(n=k) for k in (2, 3)], thorough=[dict(n=4)], functions=FUNCTIONS, bounds="n<=3/4, every removal set not containing the root (given as list / set / ndarray / generator / filter object), twice on the same tree"),
    H("to_subtree_any_numbering_4", h_to_subtree_once, quick=[dict(n=4)], thorough=[dict(n=5)], functions=FUNCTIONS, bounds="n=4/5: every numbering (children may precede parents), every removal set, one cut"),
    H("cut_tree", h_cut_tree, quick=[dict(n=k, kind=kd) for k in (2, 3, 4) for kd in ("enter", "leave")], thorough=[dict(n=5, kind=kd) for kd in ("enter", "leave")], functions=FUNCTIONS,
      bounds="n<=4/5, every verdict pattern of the callback (root kept)"),
    H("cut_by_type", h_cut_by_type, quick=[dict(n=3, cls="type"), dict(n=3, cls="axon"), dict(n=3, cls="dendrite")], thorough=[dict(n=4, cls="type"), dict(n=4, cls="axon"), dict(n=4, cls="dendrite")], functions=FUNCTIONS,
      bounds="n<=3/4, every numbering, node types from {2,3,4}, every requested type"),
    H("cut_by_order", h_cut_by_order, quick=[dict(n=k) for k in (3, 4, 5)], thorough=[dict(n=6)], functions=FUNCTIONS, bounds="n<=5/6, max order in {1,2,3}"),
    H("cut_short_tip", h_cut_short_tip, quick=[dict(n=k) for k in (3, 4)], thorough=[dict(n=5)], functions=FUNCTIONS, bounds="n<=4/5, coordinates and threshold symbolic reals (threshold >= 0)"),
    H("neurites", h_neurites, quick=[dict(n=3)], thorough=[dict(n=4)], functions=FUNCTIONS, bounds="n<=3/4, types from {1,2,3,4}, root typed soma"),
]
