"""C09 - node / path / branch / compartment views are faithful windows onto their tree; copies and detached objects are independent."""
import numpy as np

from symv.api import And, dist, eq, flat
from symv.runner import H
from symv.trees import children_of, col, sym_tree

FUNCTIONS = ["swcgeom.core.node.Node.__getitem__/__setitem__/properties/xyz/xyzr/distance/detach", "swcgeom.core.tree.Tree.__getitem__/node/__iter__/get_segments/get_compartments",
             "Tree.Node.parent/children", "swcgeom.core.path.Path.__getitem__/get_ndata/node/id/pid/origin_id/origin_pid/detach/__iter__/__len__",
             "swcgeom.core.branch.Branch.get_ndata/get_compartments/get_segments/detach/from_xyzr", "swcgeom.core.compartment.Compartment/Compartments accessors/detach",
             "swcgeom.core.swc.DictSWC.copy", "SWCLike.x/y/z/r/xyz/xyzr/xyzw/get_adjacency_matrix/number_of_nodes/number_of_edges"]
ASSUMPTIONS = ["well-formed tree rooted at node 0, any numbering otherwise", "floats as reals",
               "a detached node/path/branch/compartment has 'equal content' in every column except id/pid, which detach() documents as renumbered locally",
               "index keys are genuine ints / numpy integers (the solver enumerates every key in [-n-2, n+1] and every slice with bounds in that range and steps in {None,1,2,-1,-2})"]
OUTSIDE = ["trees above the node bound", "histories longer than the stated length",
           "attribute writes through node handles of a Path/Branch/Compartment (see known finding: the handle writes into the window's fancy-indexed copy)"]

KEYS = ("x", "y", "z", "r", "w")


def _tree(c, n):
    t, a = sym_tree(c, n, mode="any", extra=("w",))
    a["type"] = [1 + i % 5 for i in range(n)]
    t.ndata["type"] = np.array(a["type"], dtype=np.int32)
    a["id"] = list(range(n))
    return t, a


def _node_eq(node, a, i):
    """All attributes a node handle reports == row i of the ghost table."""
    cs = [eq(node[k], a[k][i]) for k in KEYS]
    cs += [eq(node.x, a["x"][i]), eq(node.y, a["y"][i]), eq(node.z, a["z"][i]), eq(node.r, a["r"][i])]
    cs += [eq(v, a[k][i]) for v, k in zip(flat(node.xyz()), "xyz")] + [eq(v, a[k][i]) for v, k in zip(flat(node.xyzr()), "xyzr")]
    ints = int(node.id) == a["id"][i] and int(node.pid) == a["pid"][i] and int(node.type) == a["type"][i] and int(node["id"]) == a["id"][i]
    return And(ints, *cs)


def _view_eq(view, a, ids, local_ids=True):
    """A path/branch/compartment window reports exactly the rows `ids`, in order."""
    m = len(ids)
    cs = []
    for k in KEYS:
        vs = flat(view.get_ndata(k))
        if len(vs) != m:
            return False
        cs += [eq(v, a[k][i]) for v, i in zip(vs, ids)]
    for k, f in (("x", view.x), ("y", view.y), ("z", view.z), ("r", view.r)):
        cs += [eq(v, a[k][i]) for v, i in zip(flat(f()), ids)]
    xyz, xyzr = view.xyz(), view.xyzr()
    if tuple(xyz.shape) != (m, 3) or tuple(xyzr.shape) != (m, 4):
        return False
    cs += [eq(xyz[j][d], a[k][i]) for j, i in enumerate(ids) for d, k in enumerate("xyz")]
    cs += [eq(xyzr[j][d], a[k][i]) for j, i in enumerate(ids) for d, k in enumerate("xyzr")]
    ints = [int(v) for v in view.type()] == [a["type"][i] for i in ids] and len(view) == m and view.number_of_nodes() == m
    if local_ids:
        ints = ints and [int(v) for v in view.id()] == list(range(m)) and [int(v) for v in view.pid()] == list(range(-1, m - 1))
        ints = ints and [int(v) for v in view.origin_id()] == [a["id"][i] for i in ids] and [int(v) for v in view.origin_pid()] == [a["pid"][i] for i in ids]
    return And(ints, *cs)


def _paths_of(pid):
    ch = children_of(pid)
    out = []
    for tip in range(len(pid)):
        if ch[tip]:
            continue
        p = [tip]
        while pid[p[-1]] != -1:
            p.append(pid[p[-1]])
        out.append(p[::-1])
    return out


# ------------------------------------------------------------------ indexing


def h_index(c, n, owner, part):
    """Tree[i] / Path[i] / Branch[i] with int, numpy-integer, negative, out-of-range keys (part='key'), slices (part='slice'), column names."""
    t, a = _tree(c, n)
    if owner == "tree":
        obj, ids = t, list(range(n))
    elif owner == "path":
        ps = t.get_paths()
        j = c.choice("which", len(ps))
        obj, ids = ps[j], [int(v) for v in ps[j].origin_id()]
        c.prove("path.is_root_to_tip", ids in _paths_of(a["pid"]))
    else:
        bs = t.get_branches()
        c.assume(len(bs) > 0)
        j = c.choice("which", len(bs))
        obj, ids = bs[j], [int(v) for v in bs[j].origin_id()]
    m = len(ids)
    if part == "slice":
        return _slices(c, obj, a, ids, m)
    key = c.concretize(c.int("key", -m - 2, m + 1))
    form = c.pick("keyform", ["int", "np.int32", "np.int64"])
    k = key if form == "int" else (np.int32(key) if form == "np.int32" else np.int64(key))
    if -m <= key < m:
        node = obj[k]
        c.prove("index.node", _node_eq(node, a, ids[key % m]) if owner == "tree" else And(*[eq(node[kk], a[kk][ids[key % m]]) for kk in KEYS]), f"key {key}")
    else:
        try:
            obj[k]
            c.prove("index.out_of_range_raises", False, f"key {key} accepted for length {m}")
        except IndexError:
            c.prove("index.out_of_range_raises", True)
    # column name
    for kk in KEYS:
        c.prove("column." + kk, And(*[eq(v, a[kk][i]) for v, i in zip(flat(obj[kk]), ids)]) if len(flat(obj[kk])) == m else False)
    # iteration
    its = list(iter(obj))
    c.prove("iter", len(its) == m and And(*[eq(g["x"], a["x"][i]) for g, i in zip(its, ids)]))
    try:
        obj[1.5]
        c.prove("index.bad_type_raises", False)
    except TypeError:
        c.prove("index.bad_type_raises", True)
    c.output("m", m)


def _slices(c, obj, a, ids, m):
    lo = c.pick("start", [None] + list(range(-m - 1, m + 2)))
    hi = c.pick("stop", [None] + list(range(-m - 1, m + 2)))
    st = c.pick("step", [None, 1, 2, -1, -2])
    got = obj[lo:hi:st]
    want = ids[lo:hi:st]
    c.prove("slice.length", isinstance(got, list) and len(got) == len(want), f"[{lo}:{hi}:{st}] -> {len(got)} vs {len(want)}")
    if len(got) == len(want):
        c.prove("slice.nodes", And(*[eq(g[kk], a[kk][i]) for g, i in zip(got, want) for kk in KEYS] + [int(g["type"]) == a["type"][i] for g, i in zip(got, want)]))
    c.output("m", m)


# ------------------------------------------------------------------ views


def h_views(c, n):
    """Every node handle, path, branch and compartment of the tree reports exactly the attributes of its nodes."""
    t, a = _tree(c, n)
    pid = a["pid"]
    ch = children_of(pid)
    for i in range(n):
        nd = t.node(i)
        c.prove(f"node.{i}", _node_eq(nd, a, i))
        par = nd.parent()
        c.prove(f"node.{i}.parent", (par is None and pid[i] == -1) or (par is not None and pid[i] != -1 and _node_eq(par, a, pid[i])))
        kids = nd.children()
        c.prove(f"node.{i}.children", sorted(int(k.id) for k in kids) == ch[i] and And(*[_node_eq(k, a, int(k.id)) for k in kids]))
        c.prove(f"node.{i}.keys", sorted(nd.keys()) == sorted(t.keys()))
    if n > 1:
        i, j = c.choice("da", n), c.choice("db", n)
        c.prove("node.distance", eq(t.node(i).distance(t.node(j)), dist([a[k][i] for k in "xyz"], [a[k][j] for k in "xyz"])))
    paths = t.get_paths()
    c.prove("paths.count", sorted([int(v) for v in p.origin_id()] for p in paths) == sorted(_paths_of(pid)))
    for p in paths:
        ids = [int(v) for v in p.origin_id()]
        c.prove("path.window", _view_eq(p, a, ids), str(ids))
        c.prove("path.nodes", And(*[eq(p.node(j)[k], a[k][i]) for j, i in enumerate(ids) for k in KEYS]))
    for b in t.get_branches():
        ids = [int(v) for v in b.origin_id()]
        c.prove("branch.window", _view_eq(b, a, ids), str(ids))
        segs = b.get_segments()
        c.prove("branch.segments.count", len(segs) == len(ids) - 1, f"{len(segs)} segments for branch {ids}")
        for s, (u, v) in zip(segs, zip(ids, ids[1:])):
            c.prove("branch.segments.pairs", _view_eq(s, a, [u, v], local_ids=False), f"branch {ids} segment ({u},{v})")
        c.prove("branch.compartments_alias", len(b.get_compartments()) == len(segs))
        if len(ids) > 1:
            sx = segs.x()
            c.prove("branch.segments.matrix", tuple(sx.shape) == (len(ids) - 1, 2) and And(*[eq(sx[j][0], a["x"][ids[j]]) for j in range(len(ids) - 1)] + [eq(sx[j][1], a["x"][ids[j + 1]]) for j in range(len(ids) - 1)]))
    # tree segments = (parent, child) pairs, one per non-root node, in node order
    segs = t.get_segments()
    c.prove("tree.segments.count", len(segs) == n - 1)
    for s, i in zip(segs, range(1, n)):
        c.prove("tree.segments.pairs", _view_eq(s, a, [pid[i], i], local_ids=False), f"segment of node {i}")
        c.prove("tree.segments.ids", [int(v) for v in s.origin_id()] == [pid[i], i])
    if n > 1:
        for k in "xyzr":
            m = getattr(segs, k)()
            c.prove("tree.segments.matrix." + k, tuple(m.shape) == (n - 1, 2) and And(*[eq(m[i - 1][0], a[k][pid[i]]) for i in range(1, n)] + [eq(m[i - 1][1], a[k][i]) for i in range(1, n)]))
        c.prove("tree.segments.xyz_shape", tuple(segs.xyz().shape) == (n - 1, 2, 3) and tuple(segs.xyzr().shape) == (n - 1, 2, 4))
        c.prove("tree.segments.id_matrix", [[int(v) for v in row] for row in segs.id()] == [[pid[i], i] for i in range(1, n)])
    # whole-tree accessors
    c.prove("tree.xyz", And(*[eq(t.xyz()[i][d], a[k][i]) for i in range(n) for d, k in enumerate("xyz")]) and tuple(t.xyz().shape) == (n, 3))
    c.prove("tree.xyzr", And(*[eq(t.xyzr()[i][d], a[k][i]) for i in range(n) for d, k in enumerate("xyzr")]))
    c.prove("tree.xyzw", And(*[eq(t.xyzw()[i][3], 1) for i in range(n)] + [eq(t.xyzw()[i][0], a["x"][i]) for i in range(n)]))
    c.prove("tree.counts", t.number_of_nodes() == n and t.number_of_edges() == n - 1 and len(t) == n)
    adj = t.get_adjacency_matrix().toarray()
    want = np.zeros((n, n), dtype=int)
    for i in range(1, n):
        want[pid[i], i] = 1
    c.prove("tree.adjacency", tuple(adj.shape) == (n, n) and (adj == want).all(), str(adj.tolist()))
    c.output("n", n)


# ------------------------------------------------------------------ histories of reads, writes, copy() and detach()


class _Owner:
    """A tree (original or copy) with its ghost table and the views created when it came into being."""

    def __init__(self, c, t, ghost, tag):
        self.t, self.g, self.tag = t, ghost, tag
        n = len(ghost["pid"])
        self.handles = [t.node(i) for i in range(n)] + [t[i] for i in range(n)]
        self.paths = list(t.get_paths())
        self.branches = list(t.get_branches())
        self.segs = list(t.get_segments())

    def check(self, c, step):
        n = len(self.g["pid"])
        cs = [_node_eq(h, self.g, i % n) for i, h in enumerate(self.handles)]
        cs += [_node_eq(self.t.node(i), self.g, i) for i in range(n)]
        cs += [_view_eq(p, self.g, [int(v) for v in p.idx]) for p in self.paths]
        cs += [_view_eq(b, self.g, [int(v) for v in b.idx]) for b in self.branches]
        cs += [_view_eq(s, self.g, [int(v) for v in s.idx], local_ids=False) for s in self.segs]
        c.prove(f"history.{step}.{self.tag}.views_equal_ghost", And(*cs))
        # a kept branch's segments stay its consecutive node pairs whatever was written meanwhile
        ok = True
        for b in self.branches:
            ids = [int(v) for v in b.idx]
            segs = b.get_segments()
            ok = ok and len(segs) == len(ids) - 1
            for sg, (u, v) in zip(segs, zip(ids, ids[1:])):
                ok = And(ok, *[eq(x, self.g[k][w]) for k in ("x", "r") for x, w in zip(flat(sg.get_ndata(k)), (u, v))])
        c.prove(f"history.{step}.{self.tag}.branch_segments_are_consecutive_pairs", ok)


class _Detached:
    """A detached node / path / branch / compartment: content fixed at creation (ghost = rows of the parent's ghost then)."""

    def __init__(self, obj, rows, tag):
        self.o, self.rows, self.tag = obj, rows, tag

    def check(self, c, step):
        m = len(self.rows["x"])
        if self.tag.startswith("node"):
            cs = [eq(self.o[k], self.rows[k][0]) for k in KEYS] + [int(self.o.type) == self.rows["type"][0], int(self.o.id) == 0, int(self.o.pid) == -1]
        else:
            cs = [eq(v, w) for k in KEYS for v, w in zip(flat(self.o.get_ndata(k)), self.rows[k])]
            cs += [len(self.o) == m, [int(v) for v in self.o.type()] == self.rows["type"], [int(v) for v in self.o.id()] == list(range(m)),
                   [int(v) for v in self.o.get_ndata("id")] == list(range(m)), [int(v) for v in self.o.get_ndata("pid")] == list(range(-1, m - 1))]
        c.prove(f"history.{step}.{self.tag}.content", And(*cs))

    def write(self, c, k, j, v):
        if self.tag.startswith("node"):
            setattr(self.o, k, v)
        else:
            self.o.attach.ndata[k][j] = v
        self.rows[k][j] = v


def _rows(g, ids):
    return {k: [g[k][i] for i in ids] for k in KEYS + ("type",)}


def h_history(c, n, steps):
    import copy as _copy

    t, a = _tree(c, n)
    g0 = {k: list(v) for k, v in a.items()}
    owners = [_Owner(c, t, g0, "orig")]
    detached = []
    nfresh = [0]

    def fresh():
        nfresh[0] += 1
        return c.real(f"v{nfresh[0]}")

    for s in range(steps):
        op = c.pick(f"op{s}", ["write", "write_via_relative", "copy", "detach_node", "detach_path", "detach_branch", "detach_segment", "write_detached", "write_pid"])
        ow = owners[c.choice(f"owner{s}", len(owners))] if len(owners) > 1 else owners[0]
        if op == "write":
            i = c.choice(f"i{s}", n)
            k = c.pick(f"k{s}", ["x", "r", "w", "type"])
            h = ow.handles[i + (n if c.choice(f"hk{s}", 2) else 0)]
            v = 7 if k == "type" else fresh()
            setattr(h, k, v) if k != "w" else h.__setitem__("w", v)
            ow.g[k][i] = v
        elif op == "write_pid":
            # re-parent node i under a node outside its own subtree (stays a tree), through a tree node handle
            from symv.trees import descendants

            cur = [int(p) for p in ow.g["pid"]]
            i = 1 + c.choice(f"i{s}", n - 1) if n > 1 else 0
            if n < 2:
                c.assume(False)
            cands = [j for j in range(n) if j not in descendants(cur, i)]
            j = cands[c.choice(f"j{s}", len(cands))]
            ow.handles[i].pid = j
            ow.g["pid"][i] = j
        elif op == "write_via_relative":
            i = c.choice(f"i{s}", n)
            par = ow.t.node(i).parent()
            kids = ow.t.node(i).children()
            tgt = par if (par is not None and c.choice(f"rel{s}", 2) == 0) else (kids[0] if kids else None)
            if tgt is None:
                c.assume(False)
            v = fresh()
            tgt.y = v
            ow.g["y"][int(tgt.id)] = v
        elif op == "copy":
            owners.append(_Owner(c, ow.t.copy(), {k: list(v) for k, v in ow.g.items()}, f"copy{s}"))
        elif op == "detach_node":
            i = c.choice(f"i{s}", n)
            detached.append(_Detached(ow.handles[i].detach(), _rows(ow.g, [i]), f"node{s}"))
        elif op == "detach_path":
            p = ow.paths[c.choice(f"p{s}", len(ow.paths))]
            detached.append(_Detached(p.detach(), _rows(ow.g, [int(v) for v in p.idx]), f"path{s}"))
        elif op == "detach_branch":
            if not ow.branches:
                c.assume(False)
            b = ow.branches[c.choice(f"b{s}", len(ow.branches))]
            detached.append(_Detached(b.detach(), _rows(ow.g, [int(v) for v in b.idx]), f"branch{s}"))
        elif op == "detach_segment":
            if not ow.segs:
                c.assume(False)
            sg = ow.segs[c.choice(f"sg{s}", len(ow.segs))]
            detached.append(_Detached(sg.detach(), _rows(ow.g, [int(v) for v in sg.idx]), f"segment{s}"))
        else:
            if not detached:
                c.assume(False)
            d = detached[c.choice(f"d{s}", len(detached))]
            m = len(d.rows["x"])
            d.write(c, c.pick(f"k{s}", ["x", "r"]), c.choice(f"j{s}", m), fresh())
        for o in owners:
            o.check(c, s)
        for d in detached:
            d.check(c, s)
    c.reachable("copied_then_written", len(owners) > 1)
    c.reachable("detached", bool(detached))
    c.output("n_objects", len(owners) + len(detached))


def h_path_node_write(c, n):
    """A write through a node handle of a path / branch must be visible in that path (its owner)."""
    t, a = _tree(c, n)
    ps = t.get_paths()
    p = ps[c.choice("which", len(ps))]
    j = c.choice("j", len(p))
    v = c.real("v")
    c.assume(v != a["x"][int(p.idx[j])])
    p.node(j).x = v
    c.prove("path_node_write.visible_in_owner", eq(p.node(j).x, v), "value written through path.node(j).x is not reported by the path afterwards")


REACH = {"history": ["copied_then_written", "detached"]}
HARNESSES = [
    H("index", h_index, quick=[dict(n=3, owner=o, part=p) for o in ("tree", "path", "branch") for p in ("key", "slice")] + [dict(n=1, owner="tree", part=p) for p in ("key", "slice")],
      thorough=[dict(n=4, owner=o, part=p) for o in ("tree", "path", "branch") for p in ("key", "slice")], functions=FUNCTIONS,
      bounds="every numbering of every tree with n<=3 (quick) / 4 (thorough) nodes; every int / np.int32 / np.int64 key in [-m-2, m+1], every slice with start/stop in {None} U [-m-1, m+1] and step in {None,1,2,-1,-2}, on the tree, on each root-to-tip path and on each branch"),
    H("views", h_views, quick=[dict(n=k) for k in (1, 2, 3, 4)], thorough=[dict(n=5)], functions=FUNCTIONS, bounds="every numbering of every tree with n<=4/5 nodes, all node handles, paths, branches, compartments, adjacency matrix"),
    H("history", h_history, quick=[dict(n=3, steps=2)], thorough=[dict(n=2, steps=3), dict(n=4, steps=2)], functions=FUNCTIONS,
      bounds="every history of 2 operations on 3-node trees (quick) / of 3 operations on 2-node trees and of 2 operations on 4-node trees (thorough) from {write through a tree node handle (stale handles included), write through a parent()/children() handle, copy(), detach of a node/path/branch/segment, write into a detached object} with every target,  all views of all live objects are compared with a ghost table after every step"),
    H("path_node_write", h_path_node_write, quick=[dict(n=2), dict(n=3)], thorough=[dict(n=4)], functions=FUNCTIONS, bounds="n<=3/4, every path, every position"),
]
