"""C10 - morphometric features equal their textbook definitions."""
import numpy as np

from symv.api import And, Not, Or, acos, clip, degrees, dist, dist2, eq, flat, ite, le, total
from symv.engine import PathAbort
from symv.runner import H
from symv.trees import children_of, col, descendants, sym_tree

FUNCTIONS = ["swcgeom.core.tree.Tree.length", "swcgeom.core.path.Path.length/straight_line_distance/tortuosity", "swcgeom.core.node.Node.distance",
             "swcgeom.analysis.sholl.Sholl.__init__/get/intersect/get_rs/_get_rs", "swcgeom.analysis.features.NodeFeatures/FurcationFeatures/TipFeatures/PathFeatures/BranchFeatures",
             "swcgeom.analysis.feature_extractor.Features.get/get_evaluator", "TreeFeatureExtractor", "PopulationFeatureExtractor._get_impl", "extract_feature", "swcgeom.utils.numpy_helper.padding1d",
             "swcgeom.analysis.lmeasure.LMeasure.n_stems/n_bifs/n_branch/n_tips/path_distance/euc_distance/branch_order/terminal_degree/partition_asymmetry/fragmentation/contraction/branch_pathlength/bif_ampl_local/bif_ampl_remote/bif_tilt_local/bif_tilt_remote",
             "swcgeom.analysis.lmeasure.angle"]
ASSUMPTIONS = ["floats as reals; arccos is an uninterpreted function (angles are compared through the cosine they are taken of)", "tree rooted at node 0, any numbering",
               "branch order (NodeFeatures): number of branch points - root included - strictly above the node; LMeasure.branch_order: number of furcation nodes on the path from the root to the node, both ends included (the readings documented next to the code; the property text does not choose between conventions)",
               "Sholl.get(steps=k): radii j*rmax/(k+1), j=1..k (np.arange in exact arithmetic)"]
OUTSIDE = ["IEEE rounding (e.g. the number of radii np.arange produces when rmax/(k+1) is not exact)", "not-implemented L-Measure functions, rall_power / pk (transcendental powers)", "width/height/depth percentiles", "trees above the node bound", "division by a zero length (contraction of a zero-length branch; Sholl profile of a tree whose points all coincide)"]


ATOL = 0.5  # degrees: concrete float32 replay of angles near 0/180 degrees is ill-conditioned (the symbolic verdict is exact)


def P(a, i):
    return (a["x"][i], a["y"][i], a["z"][i])


def _paths(pid):
    ch = children_of(pid)
    out = []
    for tip in [i for i in range(len(pid)) if not ch[i]]:
        q = [tip]
        while pid[q[-1]] != -1:
            q.append(pid[q[-1]])
        out.append(q[::-1])
    return out


def _branches(pid):
    from symv.harness.C08 import _expected_branches

    return _expected_branches(pid)


def _polyline(a, ids):
    return total(dist(P(a, v), P(a, u)) for u, v in zip(ids, ids[1:])) if len(ids) > 1 else 0


def _match(c, name, got_ids, got_vals, want):
    """got_vals[k] belongs to the object identified by got_ids[k]; want: dict id-tuple -> value."""
    c.prove(f"{name}.count", len(got_vals) == len(want) and sorted(got_ids) == sorted(want))
    for k, ids in enumerate(got_ids):
        if ids in want:
            c.prove_eq(f"{name}.value", got_vals[k], want[ids])


def h_lengths(c, n, dims):
    from swcgeom.analysis import extract_feature
    from swcgeom.analysis.features import BranchFeatures, FurcationFeatures, NodeFeatures, PathFeatures, TipFeatures

    t, a = sym_tree(c, n, mode="any", dims=dims)
    pid = a["pid"]
    ch = children_of(pid)
    seg_sum = total(dist(P(a, i), P(a, pid[i])) for i in range(1, n)) if n > 1 else 0
    c.prove_eq("tree.length", t.length(), seg_sum)
    brs = t.get_branches()
    c.prove_eq("tree.length_is_sum_of_branches", total(b.length() for b in brs) if brs else 0, seg_sum)
    pf, bf = PathFeatures(t), BranchFeatures(t)
    paths = t.get_paths()
    pids_ = [tuple(int(v) for v in p.origin_id()) for p in paths]
    want_len = {tuple(q): _polyline(a, q) for q in _paths(pid)}
    _match(c, "path.length", pids_, flat(pf.get_length()), want_len)
    c.prove("path.count", pf.get_count() == len(want_len))
    bids = [tuple(int(v) for v in b.origin_id()) for b in brs]
    want_bl = {tuple(q): _polyline(a, q) for q in _branches(pid)}
    _match(c, "branch.length", bids, flat(bf.get_length()), want_bl)
    c.prove("branch.count", bf.get_count() == len(want_bl))
    # tortuosity = straight-line distance / path length (1 for a zero-length path)
    for objs, ids, feats, wl, tag in ((paths, pids_, pf, want_len, "path"), (brs, bids, bf, want_bl, "branch")):
        tors = flat(feats.get_tortuosity())
        for k, q in enumerate(ids):
            if q not in wl:
                continue
            L = wl[q]
            straight = dist(P(a, q[-1]), P(a, q[0]))
            c.prove(f"{tag}.tortuosity", Or(And(eq(L, 0), eq(tors[k], 1)), And(Not(eq(L, 0)), eq(tors[k] * L, straight))))
            c.prove_eq(f"{tag}.straight_line_distance", objs[k].straight_line_distance(), straight)
    nf = NodeFeatures(t)
    rd = flat(nf.get_radial_distance())
    c.prove("node.radial_distance", And(*[eq(rd[i], dist(P(a, i), P(a, 0))) for i in range(n)]))
    tips = [i for i in range(n) if not ch[i]]
    furc = [i for i in range(n) if len(ch[i]) > 1]
    c.prove("counts", float(flat(nf.get_count())[0]) == n and float(flat(TipFeatures(nf).get_count())[0]) == len(tips) and float(flat(FurcationFeatures(nf).get_count())[0]) == len(furc))
    c.prove("tip.radial_distance", And(*[eq(v, dist(P(a, i), P(a, 0))) for v, i in zip(flat(TipFeatures(nf).get_radial_distance()), tips)]) if tips else True)
    c.prove("furcation.radial_distance", And(*[eq(v, dist(P(a, i), P(a, 0))) for v, i in zip(flat(FurcationFeatures(nf).get_radial_distance()), furc)]) if furc else True)
    # branch order on the branch tree: number of branch points (root included) strictly above
    t.ndata["k"] = np.arange(n, dtype=np.int32)
    nf2 = NodeFeatures(t)
    order = [int(v) for v in nf2.get_branch_order()]
    tags = [int(v) for v in nf2._branch_tree.get_ndata("k")]
    crit = set([0] + furc)

    def above(i):
        k, j = 0, pid[i]
        while j != -1:
            k += 1 if j in crit else 0
            j = pid[j]
        return k

    c.prove("node.branch_order", len(order) == len(tags) and all(order[j] == above(tags[j]) for j in range(len(tags))), f"{order} for nodes {tags}")
    # front end returns the same numbers
    fe = extract_feature(t)
    c.prove_eq("frontend.length", flat(fe.get("length"))[0], seg_sum)
    c.prove("frontend.counts", float(flat(fe.get("node_count"))[0]) == n and float(flat(fe.get("tip_count"))[0]) == len(tips) and float(flat(fe.get("furcation_count"))[0]) == len(furc))
    c.prove("frontend.node_radial_distance", And(*[eq(v, w) for v, w in zip(flat(fe.get("node_radial_distance")), rd)]))
    c.prove("frontend.path_length", And(*[eq(v, w) for v, w in zip(flat(fe.get("path_length")), flat(pf.get_length()))]) and len(flat(fe.get("path_length"))) == len(want_len))
    c.prove("frontend.branch_tortuosity", And(*[eq(v, w) for v, w in zip(flat(fe.get("branch_tortuosity")), flat(bf.get_tortuosity()))]) if brs else True)
    c.prove("frontend.list_form", len(fe.get(["length", "node_count"])) == 2)
    c.output("length", t.length())


def h_sholl(c, n, steps):
    from swcgeom.analysis import Sholl, extract_feature

    t, a = sym_tree(c, n, mode="any", dims=2)
    if n < 2:
        raise PathAbort()
    pid = a["pid"]
    d = [dist(P(a, i), P(a, 0)) for i in range(n)]
    s = Sholl(t)
    c.prove("sholl.input_untouched", And(*[eq(x, y) for x, y in zip(col(t, "x"), a["x"])]))
    r = c.real("radius", lo=0)
    got = int(s.intersect(r))
    cross = lambda rr: [Or(And(d[pid[i]] <= rr, d[i] > rr), And(d[i] <= rr, d[pid[i]] > rr)) for i in range(1, n)]
    conds = cross(r)
    if c.mode == "sym":
        want = sum(1 for q in conds if bool(q))
    else:
        want = sum(1 for q in conds if q)
    c.prove("sholl.intersect", got == want, f"{got} vs {want}")
    rmax = s.rmax
    c.prove("sholl.rmax", And(*[le(x, rmax) for x in d], Or(*[eq(rmax, x) for x in d])))
    prof = [int(v) for v in s.get(steps=steps)]
    # exact arithmetic gives `steps` radii; in IEEE arithmetic np.arange(s, rmax, s) with s = rmax/(steps+1) may yield one more
    # (outside the claim, see OUTSIDE): the concrete witness replay tolerates it, the symbolic verdict does not
    c.prove("sholl.profile_length", len(prof) == steps or (c.mode != "sym" and len(prof) == steps + 1), f"{len(prof)} radii for steps={steps}")
    radii = [rmax * j / (steps + 1) for j in range(1, steps + 1)]
    for j, rr in enumerate(radii[:len(prof)]):
        cj = cross(rr)
        wj = sum(1 for q in cj if bool(q))
        c.prove(f"sholl.profile", prof[j] == wj, f"radius #{j + 1}: {prof[j]} vs {wj}")
    # explicit radii and the front end
    prof2 = [int(v) for v in s.get(steps=[r])]
    c.prove("sholl.explicit_radius", prof2 == [want])
    fe = flat(extract_feature(t).get("sholl", steps=steps))
    c.prove("frontend.sholl", [int(float(v)) for v in fe] == prof)
    c.output("profile", prof)


def h_lmeasure_topo(c, n):
    """count / order measures (no square roots)."""
    from swcgeom.analysis.lmeasure import LMeasure

    t, a = sym_tree(c, n, mode="any", dims=1)
    pid = a["pid"]
    ch = children_of(pid)
    lm = LMeasure()
    t0, _ = sym_tree(c, 3, mode="sorted", dims=1, tag="w")  # the same analyser object measured another tree before
    _ = [lm.n_tips(t0), lm.n_bifs(t0), lm.n_branch(t0), lm.branch_order(t0.node(2)), lm.terminal_degree(t0.node(0))]
    tips = [i for i in range(n) if not ch[i]]
    furc = [i for i in range(n) if len(ch[i]) > 1]
    c.prove("n_stems", lm.n_stems(t) == len(ch[0]))
    c.prove("n_bifs", lm.n_bifs(t) == len(furc))
    c.prove("n_tips", lm.n_tips(t) == len(tips))
    c.prove("n_branch", lm.n_branch(t) == len(_branches(pid)), f"{lm.n_branch(t)} vs {len(_branches(pid))}")
    for i in range(n):
        node = t.node(i)
        k, j = 0, i
        while j != -1:
            k += 1 if j in furc else 0
            j = pid[j]
        c.prove("branch_order", lm.branch_order(node) == k, f"node {i}: {lm.branch_order(node)} vs {k}")
        sub = descendants(pid, i)
        ntips = sum(1 for v in sub if v in tips)
        c.prove("terminal_degree", lm.terminal_degree(node) == ntips, f"node {i}")
        if len(ch[i]) == 2:
            n1, n2 = [sum(1 for v in descendants(pid, k2) if v in tips) for k2 in ch[i]]
            want = 0 if n1 == n2 else abs(n1 - n2) / (n1 + n2 - 2)
            got = lm.partition_asymmetry(node)
            c.prove("partition_asymmetry", abs(float(got) - want) < 1e-9, f"node {i}: {got} vs {want}")
            c.reachable("bifurcation")
    for b in t.get_branches():
        ids = [int(v) for v in b.origin_id()]
        c.prove("fragmentation", lm.fragmentation(b) == len(ids) - 1)
    c.output("furc", furc)


def h_lmeasure_geom(c, n, dims, part):
    """distance measures (part='dist') / angle measures (part='angle')."""
    from swcgeom.analysis.lmeasure import LMeasure

    t, a = sym_tree(c, n, mode="any", dims=dims)
    pid = a["pid"]
    ch = children_of(pid)
    lm = LMeasure()
    if part == "angle" and not any(len(ch[i]) == 2 for i in range(n)):
        raise PathAbort()
    if part == "dist":
        # one analyser object is used for several trees (a population loop): measure another tree first
        t0, a0 = sym_tree(c, 2, mode="any", dims=1, tag="w")
        c.prove_eq("path_distance.other_tree_first", lm.path_distance(t0.node(1)), dist(P(a0, 1), P(a0, 0)))
        c.prove_eq("euc_distance.other_tree_first", lm.euc_distance(t0.node(1)), dist(P(a0, 1), P(a0, 0)))
    for i in range(n if part == "dist" else 0):
        node = t.node(i)
        q = [i]
        while pid[q[-1]] != -1:
            q.append(pid[q[-1]])
        c.prove_eq("path_distance", lm.path_distance(node), _polyline(a, q[::-1]))
        c.prove_eq("euc_distance", lm.euc_distance(node), dist(P(a, i), P(a, 0)))
    for b in (t.get_branches() if part == "dist" else []):
        ids = [int(v) for v in b.origin_id()]
        L = _polyline(a, ids)
        c.prove_eq("branch_pathlength", lm.branch_pathlength(b), L)
        c.assume(Not(eq(L, 0)), "contraction of a zero-length branch divides by zero")
        c.prove_eq("contraction", lm.contraction(b) * L, dist(P(a, ids[-1]), P(a, ids[0])))
    vec = lambda i, j: [a[k][j] - a[k][i] for k in "xyz"]
    dot = lambda u, v: total(p * q for p, q in zip(u, v))

    def ang(u, v):
        nu, nv = dist(u, [0, 0, 0]), dist(v, [0, 0, 0])
        return degrees(acos(clip(dot(u, v) / (nu * nv), -1, 1)), c)

    def remote_end(k):
        while len(ch[k]) == 1:
            k = ch[k][0]
        return k

    for i in range(n if part == "angle" else 0):
        if len(ch[i]) != 2:
            continue
        node = t.node(i)
        k1, k2 = ch[i]
        ends = {k1, k2, remote_end(k1), remote_end(k2)} | ({pid[i]} if pid[i] != -1 else set())
        for e1 in sorted(ends):
            for e2 in sorted(ends):
                if e1 < e2:  # Cauchy-Schwarz, proved and then available when the cosine is clipped
                    u, v = vec(i, e1), vec(i, e2)
                    c.lemma(dot(u, v) * dot(u, v) <= dot(u, u) * dot(v, v))
        for name, e1, e2 in (("local", k1, k2), ("remote", remote_end(k1), remote_end(k2))):
            u, v = vec(i, e1), vec(i, e2)
            zero = Or(eq(dot(u, u), 0), eq(dot(v, v), 0))
            try:
                got = getattr(lm, f"bif_ampl_{name}")(node)
            except ValueError:
                c.prove(f"bif_ampl_{name}.raises_only_for_zero_vectors", zero)
                continue
            c.prove_eq(f"bif_ampl_{name}", got, ang(u, v), tol=ATOL)
            if pid[i] != -1:
                w = vec(i, pid[i])
                try:
                    tilt = getattr(lm, f"bif_tilt_{name}")(node)
                except ValueError:
                    c.prove(f"bif_tilt_{name}.raises_only_for_zero_vectors", Or(zero, eq(dot(w, w), 0)))
                    continue
                a1, a2 = ang(w, u), ang(w, v)
                c.prove(f"bif_tilt_{name}.is_one_of_the_two_angles", Or(eq(tilt, a1, tol=ATOL), eq(tilt, a2, tol=ATOL)))
                c.prove(f"bif_tilt_{name}.is_the_smaller", And(le(tilt, a1, tol=ATOL), le(tilt, a2, tol=ATOL)))
        c.reachable("bifurcation")
    c.output("n", n)


def h_population(c):
    """Population front end: one zero-padded row per tree."""
    from swcgeom.analysis import extract_feature
    from swcgeom.core import Population

    t1, a1 = sym_tree(c, 2, mode="any", dims=2)
    t2, a2 = sym_tree(c, 3, mode="any", dims=2, tag="b")
    import warnings

    with warnings.catch_warnings():
        warnings.simplefilter("ignore")
        pop = Population([t1, t2])
        fe = extract_feature(pop)
        for feat in ("node_radial_distance", "path_length", "length", "tip_count"):
            m = fe.get(feat)
            rows = [flat(extract_feature(t).get(feat)) for t in (t1, t2)]
            width = max(len(r) for r in rows)
            c.prove(f"population.{feat}.shape", tuple(m.shape) == (2, width), f"{m.shape}")
            for k, r in enumerate(rows):
                got = flat(m[k])
                c.prove(f"population.{feat}.row", And(*[eq(x, y) for x, y in zip(got, r)] + [eq(x, 0) for x in got[len(r):]]))


REACH = {"lmeasure_topo": ["bifurcation"], "lmeasure_geom": ["bifurcation"]}
HARNESSES = [
    H("lengths", h_lengths, quick=[dict(n=1, dims=3), dict(n=2, dims=3), dict(n=3, dims=3), dict(n=4, dims=1)], thorough=[dict(n=4, dims=2), dict(n=5, dims=1)], functions=FUNCTIONS,
      bounds="every numbering of every tree with n<=3 nodes in 3-D, n=4 in 1-D (quick); n=4 in 2-D, n=5 in 1-D (thorough); coordinates any reals (coincident points allowed)"),
    H("sholl", h_sholl, quick=[dict(n=2, steps=2), dict(n=3, steps=2)], thorough=[dict(n=3, steps=3), dict(n=4, steps=2)], functions=FUNCTIONS, expect_outside=True,
      bounds="n<=3/4 nodes in the plane, any radius >= 0, profiles of 2/3 radii"),
    H("lmeasure_topo", h_lmeasure_topo, quick=[dict(n=k) for k in (1, 2, 3, 4, 5)], thorough=[dict(n=6)], functions=FUNCTIONS, bounds="every numbering of every tree with n<=5/6 nodes"),
    H("lmeasure_geom", h_lmeasure_geom, quick=[dict(n=3, dims=3, part="dist"), dict(n=3, dims=3, part="angle"), dict(n=4, dims=2, part="angle")],
      thorough=[dict(n=4, dims=3, part="dist"), dict(n=4, dims=3, part="angle"), dict(n=5, dims=2, part="dist")], functions=FUNCTIONS, expect_outside=True,
      bounds="distances: n<=3 in 3-D (quick), 4 in 3-D and 5 in 2-D (thorough); angles: n=3 in 3-D and n=4 in 2-D (quick), n=4 in 3-D (thorough)"),
    H("population", h_population, quick=[dict()], thorough=[dict()], functions=FUNCTIONS, bounds="a population of a 2-node and a 3-node tree, symbolic planar coordinates"),
]
