"""C08 - branches, paths, tips and furcations decompose the tree exactly."""
import numpy as np

from symv.api import And, dist, eq, le, total
from symv.runner import H
from symv.trees import children_of, col, sym_tree

FUNCTIONS = ["swcgeom.core.tree.Tree.get_branches", "get_paths", "get_tips", "get_furcations", "swcgeom.core.node.Node.is_furcation", "is_tip",
             "Tree.Node.branch", "swcgeom.core.branch_tree.BranchTree.from_tree", "get_origin_branches", "get_origin_node_branches",
             "swcgeom.transforms.tree.ToBranchTree", "ToLongestPath"]
ASSUMPTIONS = ["well-formed tree rooted at node 0, any numbering otherwise", "floats as reals",
               "Tree.Node.branch() is checked for nodes that are not furcations (for a furcation node the property text does not say which of its branches is meant)"]
OUTSIDE = ["trees above the node bound"]


def _expected_branches(pid):
    ch = children_of(pid)
    n = len(pid)
    out = []
    for s in range(n):
        if s != 0 and len(ch[s]) < 2:
            continue
        for k in ch[s]:
            chain = [s, k]
            while len(ch[chain[-1]]) == 1:
                chain.append(ch[chain[-1]][0])
            out.append(chain)
    return out


def h_decompose(c, n):
    t, a = sym_tree(c, n, mode="any", extra=("w",))
    pid = a["pid"]
    ch = children_of(pid)
    tips = [i for i in range(n) if not ch[i]]
    furc = [i for i in range(n) if len(ch[i]) > 1]
    c.prove("tips", sorted(int(x.id) for x in t.get_tips()) == tips)
    c.prove("furcations", sorted(int(x.id) for x in t.get_furcations()) == furc)
    c.prove("node.is_tip", [bool(t.node(i).is_tip()) for i in range(n)] == [i in tips for i in range(n)])
    c.prove("node.is_furcation", [bool(t.node(i).is_furcation()) for i in range(n)] == [i in furc for i in range(n)])
    brs = [[int(v) for v in b.origin_id()] for b in t.get_branches()]
    want = _expected_branches(pid)
    c.prove("branches.exact", sorted(brs) == sorted(want), f"got {sorted(brs)} expected {sorted(want)}")
    # stated directly from the property text (independent of `want`):
    edges = sorted((pid[i], i) for i in range(1, n))
    covered = sorted((b[j], b[j + 1]) for b in brs for j in range(len(b) - 1))
    c.prove("branches.partition_edges", covered == edges)
    c.prove("branches.start_end", all((b[0] == 0 or b[0] in furc) and (b[-1] in furc or b[-1] in tips) and all(len(ch[m]) == 1 and m != 0 for m in b[1:-1]) for b in brs))
    # branch objects report the attributes of their nodes
    for b in t.get_branches():
        ids = [int(v) for v in b.origin_id()]
        c.prove("branches.attrs", And(*[eq(x, a["x"][i]) for x, i in zip(col(b, "x"), ids)]))
    paths = [[int(v) for v in p.origin_id()] for p in t.get_paths()]
    wantp = []
    for tip in tips:
        p = [tip]
        while pid[p[-1]] != -1:
            p.append(pid[p[-1]])
        wantp.append(p[::-1])
    c.prove("paths.exact", sorted(paths) == sorted(wantp), f"got {paths}")
    # Node.branch for non-furcation nodes: the unique branch containing the node (for the root: the one it starts)
    for i in range(n):
        if i in furc:
            continue
        got = [int(v) for v in t.node(i).branch().origin_id()]
        cand = [b for b in want if i in b and (i != b[0] or i == 0)]
        if len(cand) == 1:
            c.prove(f"node.branch.{i}", got == cand[0], f"{got} vs {cand[0]}")
    c.reachable("root_one_child", len(ch[0]) == 1 and n > 1)
    c.reachable("has_furcation", bool(furc))
    c.output("branches", sorted(brs))


def h_after_change(c, n, how):
    """The decomposition describes the tree AS IT IS NOW: query branches/paths/tips once, then re-root / sort / re-parent in place,
    and query the resulting tree again."""
    from swcgeom.core import BranchTree, redirect_tree, sort_tree
    from symv.trees import descendants

    t, a = sym_tree(c, n, mode="any", extra=("w",))
    pid = a["pid"]
    _ = (t.get_branches(), t.get_paths(), t.get_tips(), t.get_furcations())
    if how == "redirect":
        k = c.choice("k", n)
        t2 = redirect_tree(t, k, sort=c.pick("sort", [True, False]))
    elif how == "sort":
        t2 = sort_tree(t)
    else:
        k = 1 + c.choice("k", n - 1)
        cands = [j for j in range(n) if j not in descendants(pid, k)]
        t.node(k).pid = cands[c.choice("j", len(cands))]
        t2 = t
    pid2 = [int(v) for v in t2.pid()]
    if pid2[0] != -1:
        # (branches are defined from node 0 in this library; an unsorted re-rooting leaves the root elsewhere: paths/tips only)
        ch = children_of(pid2)
        c.prove("after_change.tips", sorted(int(x.id) for x in t2.get_tips()) == [i for i in range(n) if not ch[i]])
        return
    want = _expected_branches(pid2)
    got = [[int(v) for v in b.origin_id()] for b in t2.get_branches()]
    c.prove("after_change.branches", sorted(got) == sorted(want), f"{sorted(got)} vs {sorted(want)} for pid {pid2}")
    ch = children_of(pid2)
    c.prove("after_change.tips", sorted(int(x.id) for x in t2.get_tips()) == [i for i in range(n) if not ch[i]])
    c.prove("after_change.furcations", sorted(int(x.id) for x in t2.get_furcations()) == [i for i in range(n) if len(ch[i]) > 1])
    bt = BranchTree.from_tree(t2)
    c.prove("after_change.branch_tree_size", bt.number_of_nodes() == len({0} | {i for i in range(n) if len(ch[i]) != 1}), f"{bt.number_of_nodes()}")
    c.reachable("topology_changed", pid2 != pid)


def h_branch_tree(c, n, via):
    from swcgeom.core import BranchTree
    from swcgeom.transforms import ToBranchTree

    t, a = sym_tree(c, n, mode="any", extra=("w",))
    t.ndata["k"] = np.arange(n, dtype=np.int32)
    pid = a["pid"]
    ch = children_of(pid)
    bt = BranchTree.from_tree(t) if via == "from_tree" else ToBranchTree()(t)
    crit = sorted({0} | {i for i in range(n) if len(ch[i]) != 1})
    tags = [int(v) for v in bt.get_ndata("k")]
    c.prove("bt.nodes", sorted(tags) == crit, f"{tags} vs {crit}")
    if sorted(tags) != crit:
        return
    m = bt.number_of_nodes()
    bpid = [int(v) for v in bt.pid()]

    def crit_parent(i):
        j = pid[i]
        while j not in crit:
            j = pid[j]
        return j

    c.prove("bt.ids", [int(v) for v in bt.id()] == list(range(m)) and bpid[0] == -1 and tags[0] == 0)
    c.prove("bt.parents", all(bpid[j] == -1 if tags[j] == 0 else (0 <= bpid[j] < m and tags[bpid[j]] == crit_parent(tags[j])) for j in range(m)))
    for k in ("x", "y", "z", "r", "w"):
        c.prove(f"bt.attr.{k}", And(*[eq(col(bt, k)[j], a[k][tags[j]]) for j in range(m)]))
    want = _expected_branches(pid)
    # remembered original branches: for node j exactly the branches leaving tags[j], with their points
    allb = []
    for j in range(m):
        brs = bt.branches.get(j, [])
        mine = [b for b in want if b[0] == tags[j]]
        c.prove(f"bt.branches.count.{j}", len(brs) == len(mine), f"{len(brs)} vs {len(mine)}")
        got = sorted([int(v) for v in b.get_ndata("k")] for b in brs)
        c.prove(f"bt.branches.points.{j}", got == sorted(mine), f"{got} vs {sorted(mine)}")
        for b in brs:
            ids = [int(v) for v in b.get_ndata("k")]
            for k in ("x", "y", "z", "r"):
                c.prove(f"bt.branches.attr.{k}", And(*[eq(v, a[k][i]) for v, i in zip(col(b, k), ids)]))
            allb.append(ids)
    c.prove("bt.origin_branches", sorted([int(v) for v in b.get_ndata("k")] for b in bt.get_origin_branches()) == sorted(want))
    c.prove("bt.input_untouched", [int(v) for v in t.pid()] == pid)
    c.output("tags", tags)


def h_longest_path(c, n, detach):
    from swcgeom.transforms import ToLongestPath

    t, a = sym_tree(c, n, mode="any", dims=2)
    pid = a["pid"]
    ch = children_of(pid)
    P = lambda i: (a["x"][i], a["y"][i])
    p = ToLongestPath(detach=detach)(t)
    xs = col(p, "x")
    tips = [i for i in range(n) if not ch[i]]
    paths = []
    for tip in tips:
        q = [tip]
        while pid[q[-1]] != -1:
            q.append(pid[q[-1]])
        paths.append(q[::-1])
    lens = [total(dist(P(u), P(v)) for u, v in zip(q, q[1:])) for q in paths]
    # the chosen path is one of the root-to-tip paths (identified by its coordinates) and no path is longer
    got_len = p.length()
    cands = [i for i, q in enumerate(paths) if len(q) == len(xs)]
    c.prove("longest.is_a_path", bool(cands))
    from symv.api import Or

    c.prove("longest.coords_of_some_path", Or(*[And(*[eq(x, a["x"][i]) for x, i in zip(xs, paths[j])], *[eq(y, a["y"][i]) for y, i in zip(col(p, "y"), paths[j])]) for j in cands]) if cands else False)
    for j, L in enumerate(lens):
        c.prove(f"longest.maximal.{j}", le(L, got_len))
    c.output("len", got_len)


REACH = {"after_change": ["topology_changed"], "decompose": ["root_one_child", "has_furcation"]}
HARNESSES = [
    H("after_change", h_after_change, quick=[dict(n=k, how=h) for k in (3, 4) for h in ("redirect", "sort", "setter")], thorough=[dict(n=5, how=h) for h in ("redirect", "sort", "setter")], functions=FUNCTIONS,
      bounds="every tree with n<=4/5 nodes, queried, then re-rooted at every node (sorted or not) / sorted / one node re-parented through its handle, then queried again"),
    H("decompose", h_decompose, quick=[dict(n=k) for k in (1, 2, 3, 4, 5)], thorough=[dict(n=6)], functions=FUNCTIONS, bounds="every parent table with root 0 on n<=5 (quick)/6 (thorough) nodes"),
    H("branch_tree", h_branch_tree, quick=[dict(n=k, via=v) for k in (1, 2, 3, 4) for v in ("from_tree",)] + [dict(n=5, via="from_tree"), dict(n=4, via="transform")],
      thorough=[dict(n=6, via="from_tree"), dict(n=5, via="transform")], functions=FUNCTIONS, bounds="every parent table with root 0 on n<=5/6 nodes; attributes symbolic reals"),
    H("longest_path", h_longest_path, quick=[dict(n=3, detach=True), dict(n=3, detach=False), dict(n=4, detach=True)], thorough=[dict(n=5, detach=True)], functions=FUNCTIONS,
      bounds="n<=4/5, planar symbolic coordinates; maximality against every root-to-tip path"),
]
