"""C07 - re-rooting and concatenation preserve structure and geometry."""
import numpy as np

from symv.api import And, Implies, Not, dist2, eq, flat
from symv.runner import H
from symv.trees import children_of, col, sym_tree, wf

FUNCTIONS = ["swcgeom.core.tree_utils.redirect_tree", "swcgeom.core.tree_utils.cat_tree", "swcgeom.core.tree_utils._sort_tree",
             "swcgeom.core.swc_utils.normalizer.sort_nodes_impl", "swcgeom.core.swc.DictSWC.copy", "swcgeom.core.node.Node (pid/type setters)"
             ]
ASSUMPTIONS = ["well-formed input trees under any numbering; the first tree and re-rooting inputs have their root at node 0, the second tree of cat_tree has its root at ANY position (as redirect_tree(sort=False) returns it)", "floats as reals",
               "junction merge: the code merges below EPS=1e-5; the oracle demands a merge when the junction nodes coincide exactly and forbids it when they are more than 2*EPS apart (the band in between is unconstrained)",
               "types of the second tree's old root and junction node after the internal re-rooting are not constrained (the property is silent); all other types are"]
OUTSIDE = ["trees above the node bound", "IEEE rounding (in float32 a translated junction coincides only up to rounding)", "the legacy no_move argument", "transforms/path.py PathReverser/PathToTree (not named by the property statement; they only work on paths whose ids are positions)"]

EPS = 1e-5


def _tree(c, n, tag, base=0, root_anywhere=False):
    """Symbolic tree; node types are pairwise distinct constants (the most discriminating choice for the type-exchange clause), old id carried in column k.
    root_anywhere: the root sits at a forked position (what redirect_tree(sort=False) returns), otherwise at node 0."""
    t, a = sym_tree(c, n, mode="any", extra=("w",), tag=tag)
    if root_anywhere and n > 1:
        rp = c.choice(tag + "rootpos", n)
        if rp != 0:
            sw = lambda i: rp if i == 0 else (0 if i == rp else i)
            old = a["pid"]
            new = [None] * n
            for i in range(n):
                new[sw(i)] = -1 if old[i] == -1 else sw(old[i])
            a["pid"] = new
            t.ndata["pid"] = np.array(new, dtype=np.int32)
    a["type"] = [1 + (i + (3 if base else 0)) % 7 for i in range(n)]
    t.ndata["type"] = np.array(a["type"], dtype=np.int32)
    t.ndata["k"] = np.arange(base, base + n, dtype=np.int32)
    return t, a


def _untouched(c, name, t, a, base=0):
    n = len(a["pid"])
    c.prove(name + ".topology", [int(v) for v in t.pid()] == a["pid"] and [int(v) for v in t.id()] == list(range(n))
            and [int(v) for v in t.type()] == a["type"] and [int(v) for v in t.get_ndata("k")] == list(range(base, base + n)))
    c.prove(name + ".attrs", And(*[eq(o, i) for k in ("x", "y", "z", "r", "w") for o, i in zip(col(t, k), a[k])]))


def _edges(pid):
    return sorted(tuple(sorted((i, p))) for i, p in enumerate(pid) if p != -1)


def _reroot(pid, k):
    """Reference: parent table of the same undirected tree rooted at k."""
    n = len(pid)
    adj = {i: set() for i in range(n)}
    for i, p in enumerate(pid):
        if p != -1:
            adj[i].add(p)
            adj[p].add(i)
    out = [None] * n
    out[k] = -1
    st = [k]
    while st:
        i = st.pop()
        for j in adj[i]:
            if out[j] is None:
                out[j] = i
                st.append(j)
    return out


def h_redirect(c, n, sort):
    from swcgeom.core import redirect_tree

    t, a = _tree(c, n, "")
    k = c.choice("new_root", n)
    out = redirect_tree(t, k, sort=sort)
    no = out.number_of_nodes()
    c.prove("redirect.count", no == n)
    if no != n:
        return
    tags = [int(v) for v in out.get_ndata("k")]
    c.prove("redirect.node_set", sorted(tags) == list(range(n)), str(tags))
    if sorted(tags) != list(range(n)):
        return
    pid_out = [int(v) for v in out.pid()]
    c.prove("redirect.ids", [int(v) for v in out.id()] == list(range(n)))
    c.prove("redirect.well_formed", wf(pid_out) if sort else (sum(1 for p in pid_out if p == -1) == 1 and all(-1 <= p < n for p in pid_out)))
    roots = [tags[j] for j in range(n) if pid_out[j] == -1]
    c.prove("redirect.unique_root", roots == [k], f"roots {roots}, requested {k}")
    if sort:
        c.prove("redirect.sorted", all(pid_out[j] < j for j in range(n)))
    else:
        c.prove("redirect.positions_kept", tags == list(range(n)))
    # undirected edge set, through the tags
    e_out = sorted(tuple(sorted((tags[j], tags[p]))) for j, p in enumerate(pid_out) if 0 <= p < n)
    c.prove("redirect.edges", e_out == _edges(a["pid"]), f"{e_out} vs {_edges(a['pid'])}")
    want_parent = _reroot(a["pid"], k)
    c.prove("redirect.parents", all((pid_out[j] == -1 and want_parent[tags[j]] == -1) or (0 <= pid_out[j] < n and tags[pid_out[j]] == want_parent[tags[j]]) for j in range(n)))
    # attributes: everything kept, types of old and new root exchanged
    for key in ("x", "y", "z", "r", "w"):
        c.prove(f"redirect.attr.{key}", And(*[eq(col(out, key)[j], a[key][tags[j]]) for j in range(n)]))
    want_type = list(a["type"])
    want_type[0], want_type[k] = want_type[k], want_type[0]
    c.prove("redirect.types", [int(v) for v in out.type()] == [want_type[i] for i in tags], f"{[int(v) for v in out.type()]} tags {tags} want {want_type}")
    _untouched(c, "redirect.input", t, a)
    # aliasing: writing into the result must not reach the input (and vice versa)
    out.ndata["pid"][:] = -7
    out.ndata["type"][:] = 9
    _untouched(c, "redirect.input_after_write", t, a)
    c.reachable("moved_root", k != 0)
    c.output("pid_out", pid_out)


def h_cat(c, n1, n2, translate):
    from swcgeom.core import cat_tree

    t1, a1 = _tree(c, n1, "a")
    t2, a2 = _tree(c, n2, "b", base=100, root_anywhere=True)
    root2 = a2["pid"].index(-1)
    i1 = c.choice("node1", n1)
    i2 = c.choice("node2", n2)
    P1 = [a1[k][i1] for k in "xyz"]
    P2 = [a2[k][i2] for k in "xyz"]
    delta = [p - q for p, q in zip(P1, P2)] if translate else [0, 0, 0]
    d2 = dist2(P1, [q + d for q, d in zip(P2, delta)])
    if not translate:
        c.assume(Not(And(d2 > 0, d2 <= (2 * EPS) ** 2)), "junction distance outside the band (0, 2*EPS]")
    out = cat_tree(t1, t2, i1, i2, translate=translate)
    no = out.number_of_nodes()
    c.prove("cat.count", no in (n1 + n2, n1 + n2 - 1), str(no))
    if no not in (n1 + n2, n1 + n2 - 1):
        return
    merged = no == n1 + n2 - 1
    c.prove("cat.merge_iff_coincident", And(Implies(eq(d2, 0), merged), Implies(d2 > (2 * EPS) ** 2, not merged)))
    tags = [int(v) for v in out.get_ndata("k")]
    want_tags = list(range(n1)) + [100 + j for j in range(n2) if not (merged and j == i2)]
    c.prove("cat.node_set", sorted(tags) == want_tags, f"{sorted(tags)} vs {want_tags}")
    if sorted(tags) != want_tags:
        return
    pid_out = [int(v) for v in out.pid()]
    c.prove("cat.ids", [int(v) for v in out.id()] == list(range(no)))
    c.prove("cat.well_formed", wf(pid_out), str(pid_out))
    if not wf(pid_out):
        return
    c.prove("cat.sorted", all(pid_out[j] < j for j in range(no)))
    c.prove("cat.root_is_root_of_first", tags[0] == 0)
    # expected parent (as tags)
    rr = _reroot(a2["pid"], i2)
    want = {}
    for i in range(n1):
        want[i] = a1["pid"][i] if a1["pid"][i] != -1 else None
    for j in range(n2):
        if j == i2:
            if not merged:
                want[100 + j] = i1
        elif rr[j] == i2 and merged:
            want[100 + j] = i1
        else:
            want[100 + j] = 100 + rr[j]
    got = {tags[j]: (tags[pid_out[j]] if pid_out[j] != -1 else None) for j in range(no)}
    c.prove("cat.first_tree_edges", all(got[i] == want[i] for i in range(n1)), f"{got} vs {want}")
    c.prove("cat.second_tree_edges", all(got[t] == want[t] for t in want if t >= 100), f"{got} vs {want}")
    pos = {tags[j]: j for j in range(no)}
    for key in ("x", "y", "z", "r", "w"):
        c.prove(f"cat.first_tree.{key}", And(*[eq(col(out, key)[pos[i]], a1[key][i]) for i in range(n1)]))
    c.prove("cat.first_tree.type", all(int(out.type()[pos[i]]) == a1["type"][i] for i in range(n1)))
    for ax, key in enumerate("xyz"):
        c.prove(f"cat.second_tree.{key}", And(*[eq(col(out, key)[pos[100 + j]], a2[key][j] + delta[ax]) for j in range(n2) if 100 + j in pos]))
    for key in ("r", "w"):
        c.prove(f"cat.second_tree.{key}", And(*[eq(col(out, key)[pos[100 + j]], a2[key][j]) for j in range(n2) if 100 + j in pos]))
    c.prove("cat.second_tree.type", all(int(out.type()[pos[100 + j]]) == a2["type"][j] for j in range(n2) if 100 + j in pos and j not in (root2, i2)))
    _untouched(c, "cat.input1", t1, a1)
    _untouched(c, "cat.input2", t2, a2, base=100)
    for k in ("pid", "type", "k"):
        out.ndata[k][:] = -7
    _untouched(c, "cat.input1_after_write", t1, a1)
    _untouched(c, "cat.input2_after_write", t2, a2, base=100)
    c.reachable("merged", merged)
    c.reachable("linked", not merged)
    c.reachable("rerooted", i2 != root2)
    c.reachable("second_root_not_at_0_joined_at_0", root2 != 0 and i2 == 0)
    c.output("pid_out", pid_out)


REACH = {"redirect": ["moved_root"], "cat": ["merged", "rerooted", "second_root_not_at_0_joined_at_0"], "cat_no_translate": ["merged", "linked", "rerooted"]}
HARNESSES = [
    H("redirect", h_redirect, quick=[dict(n=k, sort=s) for k in (1, 2, 3, 4, 5) for s in (True, False)], thorough=[dict(n=6, sort=s) for s in (True, False)], functions=FUNCTIONS,
      bounds="every numbering (root 0) of every tree with n<=5 (quick) / 6 (thorough) nodes, every new root, sort on/off, pairwise distinct node types, coordinates/radii/extra column symbolic reals"),
    H("cat", h_cat, quick=[dict(n1=a, n2=b, translate=True) for a, b in ((1, 1), (2, 2), (3, 2), (2, 3), (3, 3))], thorough=[dict(n1=4, n2=3, translate=True), dict(n1=3, n2=4, translate=True)], functions=FUNCTIONS,
      bounds="every pair of trees with (n1,n2) <= (3,3) quick / (4,3) and (3,4) thorough, every junction pair, translate=True"),
    H("cat_no_translate", h_cat, quick=[dict(n1=a, n2=b, translate=False) for a, b in ((1, 1), (2, 2), (3, 2), (2, 3), (3, 3))], thorough=[dict(n1=4, n2=3, translate=False), dict(n1=3, n2=4, translate=False)], functions=FUNCTIONS,
      bounds="same, translate=False; junction distance symbolic (exactly coincident, or more than 2*EPS apart)"),
]
