"""C12 - geometric transforms apply the stated affine map about the stated centre."""
import numpy as np

from symv.api import And, Implies, eq, flat, total
from symv.runner import H
from symv.trees import col, sym_tree

FUNCTIONS = ["swcgeom.utils.transforms.scale3d", "translate3d", "rotate3d", "rotate3d_x", "rotate3d_y", "rotate3d_z",
             "swcgeom.transforms.geometry.AffineTransform.__call__", "AffineTransform.apply", "Translate", "TranslateOrigin", "Scale",
             "Rotate", "RotateX", "RotateY", "RotateZ"]
ASSUMPTIONS = ["float32/float64 arithmetic modelled as exact real arithmetic (rounding outside the claim)",
               "cos/sin of the angle are a pair (c,s) with c^2+s^2=1 (covers every angle)",
               "Rotate: the axis is a unit vector (documented precondition of Rodrigues' formula)",
               "tree with root at node 0; node count bounded by the harness parameter n"]
OUTSIDE = ["IEEE rounding", "trees with more nodes than the bound (the transforms act node-wise)", "non-unit rotation axes"]


def _pts(a, i):
    return [a["x"][i], a["y"][i], a["z"][i]]


def _unchanged(c, t, out, a, n):
    c.prove("topology.pid", [int(v) for v in out.pid()] == a["pid"])
    c.prove("topology.type", [int(v) for v in out.type()] == a["type"])
    c.prove("radius", And(*[eq(x, y) for x, y in zip(col(out, "r"), a["r"])]))
    c.prove("extra", And(*[eq(x, y) for x, y in zip(col(out, "w"), a["w"])]))
    # purity: the input tree still holds the original values
    c.prove("input.untouched", And(*[eq(x, y) for k in "xyz" for x, y in zip(col(t, k), a[k])]))


def _custom_names(c, t):
    """The same tree with non-default coordinate column names (SWCNames is part of the public constructor)."""
    from swcgeom.core import Tree
    from swcgeom.core.swc_utils import SWCNames

    names = SWCNames(x="xx", y="yy", z="zz", r="rad")
    nd = dict(t.ndata)
    t2 = Tree(t.number_of_nodes(), names=names, id=nd["id"], pid=nd["pid"], type=nd["type"], xx=nd["x"], yy=nd["y"], zz=nd["z"], rad=nd["r"], w=nd["w"])
    return t2


def h_custom_names(c, n):
    """Translate / Scale / RotateZ on a tree whose coordinate columns have custom names move the coordinates that x()/y()/z() report."""
    from swcgeom.transforms import RotateZ, Scale, Translate

    t0, a = sym_tree(c, n, extra=("w",))
    t = _custom_names(c, t0)
    tx, ty, tz = c.real("tx"), c.real("ty"), c.real("tz")
    out = Translate(tx, ty, tz)(t)
    c.prove("names.translate", And(*[eq(o, i + d) for f, k, d in ((out.x, "x", tx), (out.y, "y", ty), (out.z, "z", tz)) for o, i in zip(flat(f()), a[k])]))
    s = c.real("s")
    out = Scale(s, s, s, center="origin")(t)
    c.prove("names.scale", And(*[eq(o, i * s) for f, k in ((out.x, "x"), (out.y, "y"), (out.z, "z")) for o, i in zip(flat(f()), a[k])]))
    th, co, si = c.angle("theta")
    out = RotateZ(th, center="origin")(t)
    c.prove("names.rotate_z", And(*[eq(o, co * xi - si * yi) for o, xi, yi in zip(flat(out.x()), a["x"], a["y"])] + [eq(o, si * xi + co * yi) for o, xi, yi in zip(flat(out.y()), a["x"], a["y"])]))
    c.prove("names.radius_untouched", And(*[eq(o, i) for o, i in zip(flat(out.r()), a["r"])]))
    c.prove("names.no_stray_columns", sorted(out.keys()) == sorted(t.keys()), f"{sorted(out.keys())} vs {sorted(t.keys())}")
    c.prove("names.input_untouched", And(*[eq(o, i) for o, i in zip(flat(t.x()), a["x"])]))


def h_translate(c, n):
    from swcgeom.transforms import Translate, TranslateOrigin

    t, a = sym_tree(c, n, extra=("w",))
    tx, ty, tz = c.real("tx"), c.real("ty"), c.real("tz")
    centre = c.pick("centre", ["origin", "root"])
    out = Translate(tx, ty, tz, center=centre)(t)
    for k, d in zip("xyz", (tx, ty, tz)):
        c.prove(f"translate.{k}", And(*[eq(o, i + d) for o, i in zip(col(out, k), a[k])]))
    _unchanged(c, t, out, a, n)
    back = Translate(-tx, -ty, -tz, center=centre)(out)
    c.prove("translate.inverse", And(*[eq(o, i) for k in "xyz" for o, i in zip(col(back, k), a[k])]))
    o2 = TranslateOrigin()(t)
    c.prove("origin.root_at_0", And(*[eq(col(o2, k)[0], 0) for k in "xyz"]))
    c.prove("origin.differences", And(*[eq(col(o2, k)[i] - col(o2, k)[0], a[k][i] - a[k][0]) for k in "xyz" for i in range(n)]))
    c.output("x_out", col(out, "x"))


def h_scale(c, n):
    from swcgeom.transforms import Scale

    t, a = sym_tree(c, n, extra=("w",))
    s = [c.real("sx"), c.real("sy"), c.real("sz")]
    centre = c.pick("centre", ["origin", "root", "default"])
    out = Scale(*s)(t) if centre == "default" else Scale(*s, center=centre)(t)
    cen = [0, 0, 0] if centre == "origin" else _pts(a, 0)
    for j, k in enumerate("xyz"):
        c.prove(f"scale.{k}", And(*[eq(o, cen[j] + s[j] * (i - cen[j])) for o, i in zip(col(out, k), a[k])]))
    if centre != "origin":
        c.prove("scale.centre_fixed", And(*[eq(col(out, k)[0], a[k][0]) for k in "xyz"]))
    _unchanged(c, t, out, a, n)
    c.assume(And(s[0] != 0, s[1] != 0, s[2] != 0))
    inv = [1 / v for v in s]
    back = Scale(*inv)(out) if centre == "default" else Scale(*inv, center=centre)(out)
    c.prove("scale.inverse", And(*[eq(o, i) for k in "xyz" for o, i in zip(col(back, k), a[k])]))
    c.output("x_out", col(out, "x"))


def _cross(u, v):
    return [u[1] * v[2] - u[2] * v[1], u[2] * v[0] - u[0] * v[2], u[0] * v[1] - u[1] * v[0]]


def _dot(u, v):
    return total(p * q for p, q in zip(u, v))


def _rotation_obligations(c, a, out, n, axis, cs, cen, tag):
    co, si = cs
    P = [_pts(a, i) for i in range(n)]
    Q = [[col(out, k)[i] for k in "xyz"] for i in range(n)]
    if cen is not None:
        c.prove(f"{tag}.centre_fixed", And(*[eq(Q[0][j], P[0][j]) for j in range(3)]))
    else:
        cen = [0, 0, 0]
    # all pairwise squared distances preserved
    d2 = lambda A, i, j: total((A[i][k] - A[j][k]) * (A[i][k] - A[j][k]) for k in range(3))
    c.prove(f"{tag}.isometry", And(*[eq(d2(P, i, j), d2(Q, i, j)) for i in range(n) for j in range(i)] +
                                   [eq(_dot([P[i][k] - cen[k] for k in range(3)], [P[i][k] - cen[k] for k in range(3)]),
                                       _dot([Q[i][k] - cen[k] for k in range(3)], [Q[i][k] - cen[k] for k in range(3)])) for i in range(n)]))
    for i in range(n):
        v = [P[i][k] - cen[k] for k in range(3)]
        w = [Q[i][k] - cen[k] for k in range(3)]
        # axial component preserved; perpendicular component turned by (cos, sin), right-handed
        va, wa = _dot(v, axis), _dot(w, axis)
        u = [v[k] - va * axis[k] for k in range(3)]
        ru = [w[k] - wa * axis[k] for k in range(3)]
        c.prove(f"{tag}.axial.{i}", eq(va, wa))
        c.prove(f"{tag}.cos.{i}", eq(_dot(ru, u), co * _dot(u, u)))
        c.prove(f"{tag}.sin.{i}", eq(_dot(_cross(u, ru), axis), si * _dot(u, u)))


def h_rotate_axis(c, n, which):
    from swcgeom.transforms import RotateX, RotateY, RotateZ

    t, a = sym_tree(c, n, extra=("w",))
    th, co, si = c.angle("theta")
    centre = c.pick("centre", ["origin", "root", "default"])
    cls = dict(x=RotateX, y=RotateY, z=RotateZ)[which]
    axis = dict(x=[1, 0, 0], y=[0, 1, 0], z=[0, 0, 1])[which]
    out = cls(th)(t) if centre == "default" else cls(th, center=centre)(t)
    _rotation_obligations(c, a, out, n, axis, (co, si), None if centre == "origin" else _pts(a, 0), "rot" + which)
    _unchanged(c, t, out, a, n)
    back = cls(-th)(out) if centre == "default" else cls(-th, center=centre)(out)
    c.prove("rot.inverse", And(*[eq(o, i) for k in "xyz" for o, i in zip(col(back, k), a[k])]))
    c.output("x_out", col(out, "x"))


def h_rotate(c, n):
    from swcgeom.transforms import Rotate

    t, a = sym_tree(c, n, extra=("w",))
    th, co, si = c.angle("theta")
    ax = [c.real("nx"), c.real("ny"), c.real("nz")]
    c.assume(eq(_dot(ax, ax), 1))
    centre = c.pick("centre", ["origin", "root", "default"])
    nvec = np.array(ax) if c.mode == "concrete" else _sarr(ax)
    out = Rotate(nvec, th)(t) if centre == "default" else Rotate(nvec, th, center=centre)(t)
    _rotation_obligations(c, a, out, n, ax, (co, si), None if centre == "origin" else _pts(a, 0), "rot")
    _unchanged(c, t, out, a, n)
    back = Rotate(nvec, -th)(out) if centre == "default" else Rotate(nvec, -th, center=centre)(out)
    c.prove("rot.inverse", And(*[eq(o, i) for k in "xyz" for o, i in zip(col(back, k), a[k])]))
    c.output("x_out", col(out, "x"))


def _sarr(v):
    from symv.symnp import SArr

    return SArr(list(v), np.float64)


def h_matrices(c):
    """w-row of every matrix builder is (0,0,0,1); builders agree with the textbook matrices."""
    from swcgeom.utils import rotate3d, rotate3d_x, rotate3d_y, rotate3d_z, scale3d, translate3d

    a, b, d = c.real("a"), c.real("b"), c.real("d")
    th, co, si = c.angle("theta")
    ax = [c.real("nx"), c.real("ny"), c.real("nz")]
    c.assume(eq(_dot(ax, ax), 1))
    nvec = np.array(ax) if c.mode == "concrete" else _sarr(ax)
    ms = dict(scale=scale3d(a, b, d), translate=translate3d(a, b, d), rx=rotate3d_x(th), ry=rotate3d_y(th), rz=rotate3d_z(th), r=rotate3d(nvec, th))
    for k, m in ms.items():
        c.prove(f"{k}.shape", tuple(m.shape) == (4, 4))
        row = flat(m[3])
        c.prove(f"{k}.wrow", And(eq(row[0], 0), eq(row[1], 0), eq(row[2], 0), eq(row[3], 1)))
    # rotate3d about a coordinate axis equals the elementary rotation
    for k, e in (("rx", [1.0, 0.0, 0.0]), ("ry", [0.0, 1.0, 0.0]), ("rz", [0.0, 0.0, 1.0])):
        m = rotate3d(np.array(e), th)
        c.prove(f"r.{k}", And(*[eq(x, y) for x, y in zip(flat(m), flat(ms[k]))]))
    r = ms["r"]
    # orthogonality and determinant +1 of the general rotation (upper 3x3)
    R = [[flat(r[i])[j] for j in range(3)] for i in range(3)]
    for i in range(3):
        for j in range(i + 1):
            c.prove(f"r.orthogonal.{i}{j}", eq(total(R[k][i] * R[k][j] for k in range(3)), 1 if i == j else 0))
    # (orientation of the general rotation is fixed by the rot.sin obligations of harness `rotate`)
    c.prove("r.translation_column", And(*[eq(flat(r[i])[3], 0) for i in range(3)]))


def h_reuse(c, n, kind):
    """One transform object applied to two different trees (the usual situation inside a
    Transforms pipeline / a dataset): the second tree must be mapped about ITS centre."""
    from swcgeom.transforms import RotateZ, Scale, Translate

    t1, a1 = sym_tree(c, n, extra=("w",))
    t2, a2 = sym_tree(c, n, extra=("w",), tag="b")
    centre = c.pick("centre", ["origin", "root"])
    if kind == "scale":
        s = [c.real("sx"), c.real("sy"), c.real("sz")]
        f = Scale(*s, center=centre)
    elif kind == "rotz":
        th, co, si = c.angle("theta")
        f = RotateZ(th, center=centre)
    else:
        d = [c.real("tx"), c.real("ty"), c.real("tz")]
        f = Translate(*d, center=centre)
    o1 = f(t1)
    o2 = f(t2)
    o1b = f(t1)
    for a, out, tag in ((a1, o1, "first"), (a2, o2, "second"), (a1, o1b, "first_again")):
        cen = [0, 0, 0] if centre == "origin" else _pts(a, 0)
        if kind == "scale":
            for j, k in enumerate("xyz"):
                c.prove(f"reuse.{tag}.{k}", And(*[eq(o, cen[j] + s[j] * (i - cen[j])) for o, i in zip(col(out, k), a[k])]))
        elif kind == "rotz":
            _rotation_obligations(c, a, out, n, [0, 0, 1], (co, si), None if centre == "origin" else cen, f"reuse.{tag}")
        else:
            for j, k in enumerate("xyz"):
                c.prove(f"reuse.{tag}.{k}", And(*[eq(o, i + d[j]) for o, i in zip(col(out, k), a[k])]))
    c.output("x_out2", col(o2, "x"))


HARNESSES = [
    H("custom_names", h_custom_names, quick=[dict(n=2)], thorough=[dict(n=3)], functions=FUNCTIONS, bounds="n=2/3, coordinate / radius columns named xx, yy, zz, rad"),
    H("reuse", h_reuse, quick=[dict(n=2, kind=k) for k in ("scale", "rotz", "translate")], thorough=[dict(n=3, kind=k) for k in ("scale", "rotz", "translate")], functions=FUNCTIONS,
      bounds="one transform instance applied to two independent symbolic trees (n<=2/3 nodes each) and again to the first"),
    H("translate", h_translate, quick=[dict(n=2)], thorough=[dict(n=3)], functions=FUNCTIONS, bounds="n<=2 quick / 3 thorough nodes; tx,ty,tz any reals; both centres"),
    H("scale", h_scale, quick=[dict(n=2)], thorough=[dict(n=3)], functions=FUNCTIONS, bounds="n<=2/3 nodes; sx,sy,sz any reals (non-zero for the inverse); centre origin/root/default(root)"),
    H("rotate_xyz", h_rotate_axis, quick=[dict(n=2, which=w) for w in "xyz"], thorough=[dict(n=3, which=w) for w in "xyz"], functions=FUNCTIONS,
      bounds="n<=2/3 nodes; any angle as (cos,sin); centre origin/root/default(root)"),
    H("rotate", h_rotate, quick=[dict(n=2)], thorough=[dict(n=3)], functions=FUNCTIONS, bounds="n<=2/3 nodes; any unit axis; any angle; three centre modes"),
    H("matrices", h_matrices, quick=[dict()], thorough=[dict()], functions=FUNCTIONS, bounds="all real parameters, any unit axis, any angle"),
]
