"""C19 - population containers index correctly and load each file at most once, on demand."""
import os as _os
from contextlib import contextmanager

import numpy as np

from symv.api import And, eq
from symv.engine import PathAbort
from symv.runner import Direct, H

FUNCTIONS = ["swcgeom.core.population.LazyLoadingTrees.__init__", "__getitem__", "__len__", "__iter__", "load", "ChainTrees.__init__", "ChainTrees.__getitem__", "ChainTrees.__len__",
             "ChainTrees.__iter__", "NestTrees", "Population.__init__", "Population.__getitem__", "Population.__len__", "Population.__iter__", "Population.map", "Population.from_swc",
             "Population.find_swcs", "Populations.__init__", "Populations.__getitem__", "Populations.__len__", "Populations.to_population", "Populations.from_swc", "_get_idx",
             "swcgeom.transforms.population.PopulationTransform.__call__"]
STUBS = ["os.walk / os.path.exists inside swcgeom.core.population: fake directory listing (layout forked)", "Tree.from_swc inside swcgeom.core.population: recorder returning a tree tagged with the file name",
         "ProcessPoolExecutor inside swcgeom.core.population: sequential executor"]
ASSUMPTIONS = ["'the i-th file' = the i-th file in the order in which the directory walk lists the files", "index keys are symbolic integers decided by the solver; directory layouts are forked exhaustively within the stated palette",
               "files load successfully (load failures are outside the claim)"]
OUTSIDE = ["real process pools", "real file systems", "load failures", "more members / files than the bound"]


class FakeTree:
    def __init__(self, fname):
        self.source = fname
        self.fname = fname

    def __repr__(self):
        return f"FakeTree({self.fname})"


class _Mem:
    """A member of a chain: a Trees-like container of known length."""

    def __init__(self, j, n):
        self.j, self.n = j, n
        self.requests = []

    def __len__(self):
        return self.n

    def __getitem__(self, k):
        k = int(k)
        if not 0 <= k < self.n:
            raise IndexError(k)
        self.requests.append(k)
        return (self.j, k)


@contextmanager
def _env(fs, log):
    """fs: {dirpath: (subdirs, files)}"""
    import swcgeom.core.population as P

    class FakePath:
        def __getattr__(self, name):
            return getattr(_os.path, name)

        def exists(self, p):
            return p.rstrip("/") in fs

    class FakeOS:
        path = FakePath()

        def __getattr__(self, name):
            return getattr(_os, name)

        def walk(self, root):
            root = root.rstrip("/") if root != "/" else root
            if root not in fs:
                return
            stack = [root]
            while stack:
                d = stack.pop(0)
                subs, files = fs[d]
                yield d, list(subs), list(files)
                stack = [d + "/" + s for s in subs] + stack

    class Recorder:
        @classmethod
        def from_swc(cls, fname, **kwargs):
            log.append((fname, dict(kwargs)))
            return FakeTree(fname)

    class SeqPool:
        def __init__(self, *a, **k):
            pass

        def __enter__(self):
            return self

        def __exit__(self, *a):
            return False

        def map(self, fn, it):
            return [fn(x) for x in it]

    saved = (P.os, P.Tree, P.ProcessPoolExecutor)
    P.os, P.Tree, P.ProcessPoolExecutor = FakeOS(), Recorder, SeqPool
    try:
        yield P
    finally:
        P.os, P.Tree, P.ProcessPoolExecutor = saved


def _expect_files(fs, root, ext=".swc", rel=False):
    out = []
    stack = [root]
    while stack:
        d = stack.pop(0)
        subs, files = fs[d]
        for f in files:
            if f.endswith(ext) and _os.path.splitext(f)[-1] == ext:
                out.append((_os.path.relpath(d, root) if rel else d) + "/" + f if not rel else _os.path.join(_os.path.relpath(d, root), f))
        stack = [d + "/" + s for s in subs] + stack
    return out


# --------------------------------------------------------------------------- (a) index arithmetic


def h_chain(c, m, maxlen, src):
    from swcgeom.core.population import ChainTrees

    lens = [c.choice(f"len{j}", maxlen + 1) for j in range(m)]
    mems = [_Mem(j, lens[j]) for j in range(m)]
    ch = ChainTrees(mems if src == "list" else (x for x in mems))
    flat = [(j, k) for j in range(m) for k in range(lens[j])]
    L = len(flat)
    c.prove("chain.len", int(len(ch)) == L, f"len {len(ch)} expected {L} for member lengths {lens}")
    key = c.int("key", -L - 2, L + 1)
    if c.mode == "sym":
        pass
    want_ok = And(key >= -L, key < L)
    try:
        got = ch[key]
        raised = False
    except IndexError:
        raised = True
    k = c.concretize(key)
    if -L <= k < L:
        c.prove("chain.item", (not raised) and got == flat[k], f"key {k}: got {None if raised else got} expected {flat[k]}")
    else:
        c.prove("chain.out_of_range_raises", raised, f"key {k} with total length {L} did not raise")
    c.prove("chain.iter", list(iter(ch)) == flat)
    c.reachable("empty_member", 0 in lens and L > 0)
    c.output("lens", lens)


def h_lazy_index(c, n, kind):
    """LazyLoadingTrees / Population / NestTrees: int, negative, numpy-integer and slice keys; loads on demand, once."""
    from swcgeom.core.population import LazyLoadingTrees, Population

    log = []
    with _env({}, log) as P:
        files = [f"/d/f{i}.swc" for i in range(n)]
        lz = LazyLoadingTrees(files, extra_cols=["w"])
        c.prove("lazy.no_load_at_construction", log == [])
        c.prove("lazy.len", len(lz) == n)
        pop = Population(lz, root="/d")
        probe = [f for f, _ in log]
        c.prove("pop.construction_probes_at_most_first_file", probe in ([], files[:1]), f"loaded {probe}")
        c.prove("pop.len", len(pop) == n)
        key = c.int("key", -n - 2, n + 1)
        target = lz if kind == "lazy" else pop
        if kind == "numpy":
            k0 = c.concretize(key)
            key_arg = np.int64(k0)
        elif kind == "pop":
            key_arg = c.concretize(key)  # Population.__getitem__ dispatches on isinstance(key, int): a genuine int
        else:
            key_arg = key
        before = len(log)
        try:
            t = target[key_arg]
            raised = False
        except IndexError:
            raised = True
        k = c.concretize(key)
        if -n <= k < n:
            c.prove("index.item", (not raised) and t.fname == files[k], f"key {k}")
            newly = [f for f, _ in log[before:]]
            c.prove("index.loads_only_requested", newly in ([], [files[k % n]]) and (newly == [] or files[k % n] not in probe), f"{newly}")
            c.prove("index.kwargs_forwarded", all(kw == {"extra_cols": ["w"]} for _, kw in log))
            # second request: same object, no further load
            before2 = len(log)
            t2 = target[key_arg]
            c.prove("index.cached", t2 is t and len(log) == before2)
        else:
            c.prove("index.out_of_range_raises", raised and len(log) == before, f"key {k} n {n}")
        # slices
        start = c.pick("start", [None, 0, 1, -1, -2])
        stop = c.pick("stop", [None, 0, 1, 2, -1, n + 3])
        step = c.pick("step", [None, 1, 2, -1])
        before3 = len(log)
        sl = pop[start:stop:step]
        c.prove("slice.lazy", len(log) == before3)
        want = list(range(n))[start:stop:step]
        c.prove("slice.len", len(sl) == len(want))
        got = [sl[i].fname for i in range(len(sl))]
        c.prove("slice.items", got == [files[i] for i in want], f"{got}")
        # iteration and everything-once
        alls = [t.fname for t in pop]
        c.prove("iter.order", alls == files)
        loads = [f for f, _ in log]
        c.prove("each_file_loaded_at_most_once", len(loads) == len(set(loads)), f"{loads}")
    c.output("loads", loads)


# --------------------------------------------------------------------------- (b) directories and histories


def _layout(c, tag, root, rich=True, rev=False):
    """A forked directory tree below `root`."""
    top = [f for f in ("a.swc", "b.swc", "c.txt") if c.choice(f"{tag}.{f}", 2)]
    if rev and len(top) > 1 and c.choice(f"{tag}.rev", 2):
        top = top[::-1]  # directories enumerate their entries in no particular order
    fs = {root: ([], top)}
    if c.choice(f"{tag}.sub", 2):
        sub = [f for f in (("a.swc", "d.swc") if rich else ("d.swc",)) if c.choice(f"{tag}.s.{f}", 2)]
        fs[root][0].append("s")
        fs[root + "/s"] = ([], sub)
        if rich and c.choice(f"{tag}.subsub", 2):
            fs[root + "/s"][0].append("t")
            fs[root + "/s/t"] = ([], ["e.swc"])
    if rich and c.choice(f"{tag}.empty", 2):
        fs[root][0].insert(0, "empty")
        fs[root + "/empty"] = ([], [])
    return fs


def h_population_dir(c, nops, rich=True):
    """Population.from_swc on a forked directory layout, then a history of operations."""
    log = []
    fs = _layout(c, "L", "/data", rich=rich)
    with _env(fs, log) as P:
        import warnings

        from swcgeom.core.population import Population

        with warnings.catch_warnings():
            warnings.simplefilter("ignore")
            pop = Population.from_swc("/data")
        files = _expect_files(fs, "/data")
        n = len(files)
        c.prove("dir.files", Population.find_swcs("/data") == files, f"{Population.find_swcs('/data')} vs {files}")
        c.prove("dir.len", len(pop) == n)
        probe = [f for f, _ in log]
        c.prove("dir.construction_probes_at_most_first_file", probe in ([], files[:1]), f"{probe}")
        requested = set(probe)
        for s in range(nops):
            op = c.pick(f"op{s}", ["index", "slice", "iter", "map", "len"])
            before = len(log)
            if op == "index":
                if n == 0:
                    continue
                k = c.concretize(c.int(f"k{s}", -n, n - 1))
                t = pop[k]
                c.prove(f"hist.index.{s}", t.fname == files[k])
                requested.add(files[k])
            elif op == "slice":
                a = c.pick(f"a{s}", [None, 1, -1])
                b = c.pick(f"b{s}", [None, 1, -1])
                sl = pop[a:b]
                c.prove(f"hist.slice_is_lazy.{s}", len(log) == before)
                want = list(range(n))[a:b]
                c.prove(f"hist.slice_len.{s}", len(sl) == len(want))
                if want:
                    j = c.choice(f"j{s}", len(want))
                    c.prove(f"hist.slice_item.{s}", sl[j].fname == files[want[j]])
                    requested.add(files[want[j]])
            elif op == "iter":
                c.prove(f"hist.iter.{s}", [t.fname for t in pop] == files)
                requested |= set(files)
            elif op == "map":
                res = list(pop.map(lambda t: "r:" + t.fname))
                c.prove(f"hist.map.{s}", res == ["r:" + f for f in files], f"{res}")
                requested |= set(files)
            else:
                c.prove(f"hist.len.{s}", len(pop) == n and len(log) == before)
            loads = [f for f, _ in log]
            c.prove(f"hist.once.{s}", len(loads) == len(set(loads)), f"{loads}")
            c.prove(f"hist.on_demand.{s}", set(loads) <= requested, f"loaded {sorted(set(loads) - requested)} without a request")
        c.reachable("nested_and_empty", ("/data/empty" in fs or not rich) and "/data/s" in fs and n >= 2)
        c.reachable("no_files", n == 0)
    c.output("files", files)


def h_missing_root(c):
    log = []
    with _env({"/data": ([], [])}, log):
        from swcgeom.core.population import Population

        try:
            Population.from_swc("/nowhere")
            raised = False
        except FileNotFoundError:
            raised = True
        c.prove("missing_root_raises", raised)


def h_populations(c):
    """Populations.from_swc over two directories with differing file sets; rows; to_population."""
    import warnings

    log = []
    fs = {}
    fs.update(_layout(c, "A", "/A", rich=False))
    fs.update(_layout(c, "B", "/B", rich=False, rev=True))
    with _env(fs, log):
        from swcgeom.core.population import Populations

        with warnings.catch_warnings():
            warnings.simplefilter("ignore")
            pops = Populations.from_swc(["/A", "/B"], labels=["a", "b"])
        ra, rb = _expect_files(fs, "/A", rel=True), _expect_files(fs, "/B", rel=True)
        ra, rb = [_os.path.normpath(f) for f in ra], [_os.path.normpath(f) for f in rb]
        inter = [f for f in ra if f in rb]
        c.prove("pops.len", len(pops) == len(inter), f"{len(pops)} vs {inter}")
        c.prove("pops.num", pops.num_of_populations() == 2 and pops.labels == ["a", "b"])
        probe = [f for f, _ in log]
        c.prove("pops.construction_probes_at_most_first_files", len(probe) <= 2 and len(set(probe)) == len(probe))
        seen = []
        for i in range(len(pops)):
            row = pops[i]
            rels = [_os.path.relpath(t.fname, r) for t, r in zip(row, ("/A", "/B"))]
            c.prove(f"pops.row_same_named.{i}", len(row) == 2 and rels[0] == rels[1] and row[0].fname.startswith("/A") and row[1].fname.startswith("/B"), f"{rels}")
            seen.append(rels[0])
        c.prove("pops.rows_cover_intersection", sorted(seen) == sorted(inter))
        c.prove("pops.iter", [[t.fname for t in row] for row in pops] == [[t.fname for t in pops[i]] for i in range(len(pops))])
        chain = pops.to_population()
        want = [t.fname for t in pops.populations[0]] + [t.fname for t in pops.populations[1]]
        c.prove("to_population.len", len(chain) == len(want), f"{len(chain)} vs {len(want)}")
        c.prove("to_population.items", [chain[i].fname for i in range(len(chain))] == want)
        if want:
            k = c.concretize(c.int("k", -len(want), len(want) - 1))
            c.prove("to_population.index", chain[k].fname == want[k])
        loads = [f for f, _ in log]
        c.prove("pops.once", len(loads) == len(set(loads)), f"{loads}")
        c.reachable("nonempty_intersection", len(inter) >= 1)
        c.reachable("different_sets", sorted(ra) != sorted(rb))
    c.output("inter", inter)


def h_transform(c, n):
    """PopulationTransform: one transformed tree per tree, in order."""
    log = []
    with _env({}, log):
        from swcgeom.core.population import LazyLoadingTrees, Population
        from swcgeom.transforms.population import PopulationTransform

        files = [f"/d/f{i}.swc" for i in range(n)]
        import warnings

        with warnings.catch_warnings():
            warnings.simplefilter("ignore")
            pop = Population(LazyLoadingTrees(files), root="/d")
            keep = c.choice("keep_source", 2)

            def tf(t):
                r = FakeTree("T:" + t.fname)
                r.source = "" if keep else "new"
                return r

            out = PopulationTransform(tf)(pop)
        c.prove("ptf.len", len(out) == n)
        c.prove("ptf.items", [t.fname for t in out] == ["T:" + f for f in files])
        c.prove("ptf.source", [t.source for t in out] == ([f for f in files] if keep else ["new"] * n))
        c.prove("ptf.root", out.root == "/d")
        loads = [f for f, _ in log]
        c.prove("ptf.once", len(loads) == len(set(loads)))


REACH = {"chain": ["empty_member"], "population_dir": ["nested_and_empty", "no_files"], "populations": ["nonempty_intersection", "different_sets"]}
def d_scale(tier):
    """Auxiliary, NOT solver-based: 150 lazily loaded members (two folders of 70 and 80 files): iterated twice, indexed, sliced, chained;
    every file is loaded at most once and population[i] is the tree of the i-th file."""
    import swcgeom.core.population as P

    loads = []

    class _T:
        def __init__(self, name):
            self.source = name

    saved = P.Tree.from_swc
    P.Tree.from_swc = staticmethod(lambda f, **k: (loads.append(f), _T(f))[1])
    try:
        a = P.LazyLoadingTrees([f"a/{i:03d}.swc" for i in range(70)])
        b = P.LazyLoadingTrees([f"b/{i:03d}.swc" for i in range(80)])
        ch = P.ChainTrees([a, b])
        seq1 = [t.source for t in ch]
        seq2 = [t.source for t in ch]
        picks = [ch[0].source, ch[-1].source, ch[69].source, ch[70].source, a[5].source, b[-1].source]
        want = [f"a/{i:03d}.swc" for i in range(70)] + [f"b/{i:03d}.swc" for i in range(80)]
        ok = seq1 == want and seq2 == want and picks == [want[0], want[-1], want[69], want[70], want[5], want[-1]] and sorted(loads) == sorted(want) and len(loads) == len(set(loads))
        detail = f"{len(loads)} loads for {len(want)} files, max loads of one file {max(loads.count(x) for x in set(loads))}"
    finally:
        P.Tree.from_swc = saved
    return [dict(name="aux.150_members_loaded_once", status="discharged" if ok else "violated", detail=detail, solver_s=0.0, sample=dict(kind="auxiliary_non_solver", detail=detail),
                 replay=dict(reproduced=True, why=detail))]


def replay_direct(blob):
    r = d_scale("quick")
    return dict(reproduced=any(x["status"] == "violated" for x in r), results=r)


HARNESSES = [
    H("chain", h_chain, quick=[dict(m=k, maxlen=2, src=s) for k in (1, 2, 3) for s in ("list", "generator")], thorough=[dict(m=3, maxlen=3, src=s) for s in ("list", "generator")] + [dict(m=4, maxlen=2, src="generator")],
      functions=FUNCTIONS, bounds="m<=3 members (4 thorough) of length 0..2 (3 thorough), built from a list and from a generator; key a symbolic integer in [-L-2, L+1]", validate=True),
    H("lazy_index", h_lazy_index, quick=[dict(n=k, kind=kd) for k in (1, 3) for kd in ("lazy", "pop", "numpy")], thorough=[dict(n=4, kind=kd) for kd in ("lazy", "pop", "numpy")], functions=FUNCTIONS,
      bounds="n<=3/4 files; key symbolic in [-n-2, n+1] as int / numpy integer; slices from a palette of start/stop/step"),
    H("population_dir", h_population_dir, quick=[dict(nops=2)], thorough=[dict(nops=3, rich=False), dict(nops=2)], functions=FUNCTIONS,
      bounds="every layout from the palette (files a.swc,b.swc,c.txt at top; sub-folder s with a.swc,d.swc; sub-sub-folder; empty folder) x every history of 2 operations (quick, thorough); reduced palette (no empty / sub-sub folder, sub-folder d.swc only) x every history of 3 operations (thorough) from index/slice/iter/map/len"),
    H("missing_root", h_missing_root, quick=[dict()], thorough=[dict()], functions=FUNCTIONS, bounds="-"),
    H("populations", h_populations, quick=[dict()], thorough=[dict()], functions=FUNCTIONS, bounds="two directories, each every layout from the reduced palette (a.swc,b.swc,c.txt; sub-folder with d.swc)"),
    H("transform", h_transform, quick=[dict(n=0), dict(n=2)], thorough=[dict(n=3)], functions=FUNCTIONS, bounds="n<=2/3 trees"),
    Direct("scale", d_scale, functions=FUNCTIONS, bounds="auxiliary concrete run: 150 lazily loaded members (not a solver claim)"),
]
