"""C02 - SWC reading keeps every data row, in order, or fails loudly."""
import io
import re
import time
import warnings

import numpy as np

from symv.engine import PathAbort
from symv.runner import Direct, H

FUNCTIONS = ["swcgeom.core.swc_utils.io.parse_swc (re_swc, RE_COMMENT, RE_FLOAT as compiled by the running code)", "swcgeom.core.swc_utils.io.read_swc", "swcgeom.utils.file.FileReader.__enter__/__exit__",
             "swcgeom.core.swc_utils.normalizer.sort_nodes_", "reset_index_", "swcgeom.core.tree.Tree.from_swc", "swcgeom.core.population.LazyLoadingTrees.load"]
ASSUMPTIONS = ["alphabet ASCII 1..126", "CPython's int()/float() on a token are trusted to return the number the token spells",
               "E2 verdicts are language inclusions/emptiness decided by z3's sequence theory for lines of ANY length; that group i equals token i follows from: no capture language contains white space (query), captures are separated by \\s+ (checked on the parse tree), and for the last column the tail-absorption query",
               "a 7th token that starts like an integer but continues with characters of the tolerated tail class (e.g. '-1.5') is outside the SWC line grammar and outside the 'malformed' classes of the property (accepted by the code with the tail ignored)"]
OUTSIDE = ["encoding='detect' (chardet heuristics)", "non-ASCII digits / white space", "files above the line bound in the E1 part"]

WS = "[ \\t\\r]"
INT = "[0-9]+"
SINT = "-?[0-9]+"
FLOAT = "[+-]?(?:[0-9]+|[0-9]+[.]|[0-9]+[.][0-9]+|[.][0-9]+)(?:[eE][+-]?[0-9]+)?"
TOK = "[^\\s]+"


def real_patterns(extras=()):
    """The patterns of the running code: re_swc by spying re.compile during parse_swc on an empty stream."""
    import swcgeom.core.swc_utils.io as IO

    pats = []
    orig = re.compile

    def spy(p, *a, **k):
        pats.append(p)
        return orig(p, *a, **k)

    IO.re.compile = spy
    try:
        IO.parse_swc(io.StringIO(""), names=IO.get_names(None), extra_cols=list(extras) or None)
    finally:
        IO.re.compile = orig
    if not pats:
        raise RuntimeError("parse_swc compiled no pattern")
    return pats[-1], IO.RE_COMMENT.pattern, IO.RE_FLOAT


def d_language(tier):
    import z3

    from symv import re2z3 as R

    out = []
    pat, pat_comment, pat_float = real_patterns()
    L, tr = R.language(pat)
    rx = re.compile(pat)
    frag = lambda p: R.fragment(p)[0]
    s = z3.String("s")

    def query(name, must, *cs, validate=None, timeout=120000):
        """must: 'unsat' (inclusion / emptiness) or 'sat' (reachability twin)."""
        sv = z3.Solver()
        sv.set("timeout", timeout)
        sv.add(R.ascii_string(s))
        sv.add(*cs)
        t0 = time.time()
        r = sv.check()
        dt = time.time() - t0
        w = R.decode(sv.model().eval(s, model_completion=True).as_string()) if r == z3.sat else None
        d = dict(name=name, solver_s=dt, sample=dict(query=name, expected=must, result=str(r), witness=w))
        if str(r) == "unknown":
            d.update(status="unknown", detail=sv.reason_unknown())
        elif str(r) == must:
            d["status"] = "discharged"
            if w is not None and validate is not None and not validate(w):
                d.update(status="harness_error", detail=f"translator check failed: witness {w!r} behaves differently under the real re object")
        elif must == "unsat":
            d.update(status="violated", detail=f"counterexample line {w!r}", model=dict(line=w, query=name))
            d["replay"] = replay_line(name, w)
        else:
            d.update(status="harness_error", detail=f"reachability twin of {name} is unsatisfiable (vacuous spec?)")
        out.append(d)
        return d

    # --- (i) completeness: the SWC line grammar of the property is accepted
    spec = f"{WS}*{INT}{WS}+{INT}{WS}+{FLOAT}{WS}+{FLOAT}{WS}+{FLOAT}{WS}+{FLOAT}{WS}+{SINT}(?:{WS}+{FLOAT})*{WS}*\\n?"
    S = frag(spec)
    query("grammar_line_accepted", "unsat", z3.InRe(s, S), z3.Not(z3.InRe(s, L)))
    query("grammar_line_accepted.twin", "sat", z3.InRe(s, S), z3.InRe(s, L), validate=lambda w: rx.search(w) is not None)
    for label, extra in (("exponent_trailing", f"(?:{WS}+[0-9]+[.][0-9]+[eE][+-]?[0-9]+)+"), ("crlf", "")):
        pass
    # with one requested extra column
    pat1, _, _ = real_patterns(["w"])
    L1, _ = R.language(pat1)
    spec1 = f"{WS}*{INT}{WS}+{INT}{WS}+{FLOAT}{WS}+{FLOAT}{WS}+{FLOAT}{WS}+{FLOAT}{WS}+{SINT}{WS}+{FLOAT}(?:{WS}+{FLOAT})*{WS}*\\n?"
    query("grammar_line_accepted.extra_col", "unsat", z3.InRe(s, frag(spec1)), z3.Not(z3.InRe(s, L1)))
    # --- (ii) rejection
    few = f"\\s*(?:{TOK}(?:\\s+{TOK}){{0,5}})?\\s*"
    query("fewer_than_seven_tokens_rejected", "unsat", z3.InRe(s, frag(few)), z3.InRe(s, L))
    query("fewer_than_seven_tokens_rejected.twin", "sat", z3.InRe(s, frag(few)), z3.Length(s) > 8, z3.Not(z3.InRe(s, L)), validate=lambda w: rx.search(w) is None)
    query("seven_tokens_missing_extra_col_rejected", "unsat", z3.InRe(s, frag(f"\\s*{TOK}(?:\\s+{TOK}){{6}}\\s*")), z3.InRe(s, L1))
    fields = [INT, INT, FLOAT, FLOAT, FLOAT, FLOAT]
    code_float = R.fragment(pat_float)[0]
    for i in range(6):
        good = frag(fields[i]) if i < 2 else z3.Union(frag(fields[i]), code_float)
        pre = "".join(f"{TOK}\\s+" for _ in range(i))
        bad_line = z3.Concat(frag(f"\\s*{pre}"), z3.Intersect(frag(TOK), z3.Complement(good)), frag("(?:\\s[^\\n]*)?\\n?"))
        query(f"token{i + 1}_not_numeric_rejected", "unsat", z3.InRe(s, bad_line), z3.InRe(s, L))
    tail_class = "[\\s+,\\-.0-9eE]"  # what the code's tail tolerates after the last column
    bad7 = z3.Concat(frag(f"\\s*(?:{TOK}\\s+){{6}}"), z3.Intersect(frag(TOK), z3.Complement(frag(f"{SINT}[+,\\-.0-9eE]*"))), frag("(?:\\s[^\\n]*)?\\n?"))
    query("token7_not_numeric_rejected", "unsat", z3.InRe(s, bad7), z3.InRe(s, L))
    query("token_with_letter_rejected", "unsat", z3.InRe(s, frag(f"\\s*(?:{TOK}\\s+){{0,6}}[^\\s]*[a-df-zA-DF-Z_#][^\\s]*(?:\\s[^\\n]*)?\\n?")), z3.InRe(s, L))
    # rejected lines are not mistaken for comments or blank lines
    C = frag("\\s*#[^\\n]*\\n?")
    query("comment_lines_are_not_rows", "unsat", z3.InRe(s, C), z3.InRe(s, L))
    Lc, _ = R.prefix_language(pat_comment)
    query("comment_pattern_is_hash_after_blanks", "unsat", z3.InRe(s, z3.Concat(Lc, frag("[^\\n]*\\n?"))) != z3.InRe(s, z3.Concat(frag("\\s*#"), frag("[^\\n]*\\n?"))))
    query("malformed_line_is_neither_comment_nor_blank", "unsat", z3.InRe(s, frag(f"\\s*[^\\s#][^\\n]*\\n?")), z3.Or(z3.InRe(s, C), z3.InRe(s, frag("\\s*"))))
    # --- (iii) group = token
    space_inside = frag("[^\\n]*\\s[^\\n]*|[\\s\\S]*\\n[\\s\\S]*")
    for g in range(1, 8):
        query(f"capture{g}_has_no_white_space", "unsat", z3.InRe(s, tr.groups[g]), z3.InRe(s, frag("[\\s\\S]*\\s[\\s\\S]*")))
    ok, why = _shape_check(pat)
    out.append(dict(name="captures_separated_by_white_space", status="discharged" if ok else "violated", detail=why, solver_s=0.0, sample=dict(query="parse-tree shape of re_swc", result=why),
                    replay=dict(reproduced=not ok, why=why)))
    x, r = z3.String("x"), z3.String("r")
    T = z3.Concat(frag("\\s*"), tr.groups[8], frag("\\n?"))
    sv = z3.Solver()
    sv.set("timeout", 120000)
    sv.add(R.ascii_string(x), R.ascii_string(r), z3.InRe(x, frag("[0-9]+")), z3.InRe(z3.Concat(x, r), T), z3.Not(z3.InRe(r, T)))
    t0 = time.time()
    res = sv.check()
    out.append(dict(name="tail_absorbs_digits (a shorter last-column capture never rescues a match, so the greedy capture is the whole token)", status={"unsat": "discharged", "sat": "violated"}.get(str(res), "unknown"),
                    detail=str(res), solver_s=time.time() - t0, sample=dict(query="x in [0-9]+ & x.r in TAIL & r not in TAIL", result=str(res)), replay=dict(reproduced=False, why="language-level query")))
    # --- witnesses of every grammar class through the real reader (translator validation + numeric equality)
    for cls, pieces in _classes().items():
        sv = z3.Solver()
        sv.set("timeout", 60000)
        sv.add(R.ascii_string(s), z3.InRe(s, frag(pieces)), z3.Length(s) >= 14)
        t0 = time.time()
        res = sv.check()
        if res != z3.sat:
            out.append(dict(name=f"witness.{cls}", status="harness_error", detail=f"no witness: {res}", solver_s=time.time() - t0))
            continue
        w = R.decode(sv.model().eval(s, model_completion=True).as_string())
        ok, why = _read_one(w)
        out.append(dict(name=f"witness.{cls}", status="discharged" if ok else "violated", detail=why, solver_s=time.time() - t0, sample=dict(line=w, read=why), model=dict(line=w, query="witness." + cls),
                        replay=dict(reproduced=not ok, why=why)))
    return out


def _classes():
    row = lambda *f: "".join(f)
    base = f"{INT} {INT} "
    return {
        "plain": f"{INT} {INT} [0-9]+[.][0-9]+ [0-9]+[.][0-9]+ [0-9]+[.][0-9]+ [0-9]+[.][0-9]+ -1\\n",
        "leading_blanks_tabs": f"[ \\t]+{INT}\\t{INT}\\t{FLOAT}\\t{FLOAT}\\t{FLOAT}\\t{FLOAT}\\t{SINT}\\n",
        "signs_dot_forms": f"{INT} {INT} [+][0-9]+[.] -[.][0-9]+ [0-9]+ [+-][0-9]+[.][0-9]+ {SINT}\\n",
        "exponents": f"{INT} {INT} [0-9][.][0-9]e[+]?[0-9] -[0-9]E-[0-9] [.][0-9]e[0-9] [0-9]+[.]E[+][0-9] {SINT}\\n",
        "crlf": f"{INT} {INT} {FLOAT} {FLOAT} {FLOAT} {FLOAT} {SINT}\\r\\n",
        "trailing_fields": f"{INT} {INT} {FLOAT} {FLOAT} {FLOAT} {FLOAT} {SINT}(?: {FLOAT}){{2,3}}\\n",
        "trailing_fields_exponent": f"{INT} {INT} {FLOAT} {FLOAT} {FLOAT} {FLOAT} {SINT} [0-9][.][0-9]+[eE][+-][0-9]\\n",
        "no_final_newline": f"{INT} {INT} {FLOAT} {FLOAT} {FLOAT} {FLOAT} {SINT}",
    }


def _read_one(line):
    """The real reader on a one-row file: every field equals int()/float() of its token."""
    import swcgeom.core.swc_utils.io as IO

    toks = line.split()
    try:
        with warnings.catch_warnings():
            warnings.simplefilter("ignore")
            # the parsing layer (a one-row file with an arbitrary parent id is not a tree, so no topology checks)
            df, _ = IO.parse_swc(io.StringIO(line), names=IO.get_names(None))
    except Exception as e:  # noqa: BLE001
        return False, f"real reader raised {e!r} on {line!r}"
    if len(df) != 1:
        return False, f"{len(df)} rows for one data line {line!r}"
    want = [int(toks[0]), int(toks[1])] + [float(t) for t in toks[2:6]] + [int(toks[6])]
    got = [df[k][0] for k in ("id", "type", "x", "y", "z", "r", "pid")]
    if any(float(a) != float(b) for a, b in zip(want, got)):
        return False, f"fields {got} differ from tokens {want} in {line!r}"
    return True, f"ok {got}"


def _shape_check(pat):
    """re_swc == ^ \\s* G1 \\s+ G2 ... \\s+ G7 (\\s+ Gk)* \\s* G_last $ on CPython's own parse tree."""
    import re._constants as C
    import re._parser as P

    tree = list(P.parse(pat))
    if tree[0] != (C.AT, C.AT_BEGINNING) or tree[-1] != (C.AT, C.AT_END):
        return False, "pattern is not anchored with ^...$"
    body = tree[1:-1]

    def is_ws(item, lo):
        op, av = item
        return op is C.MAX_REPEAT and av[0] == lo and av[1] is C.MAXREPEAT and list(av[2]) == [(C.IN, [(C.CATEGORY, C.CATEGORY_SPACE)])]

    def is_group(item):
        return item[0] is C.SUBPATTERN and item[1][0] is not None

    if not is_ws(body[0], 0):
        return False, "pattern does not start with \\s*"
    rest = body[1:]
    ngroups = 0
    i = 0
    while i < len(rest):
        if not is_group(rest[i]):
            return False, f"item {i} is not a capture group"
        ngroups += 1
        i += 1
        if i == len(rest):
            break
        if not (is_ws(rest[i], 1) or (is_ws(rest[i], 0) and i == len(rest) - 2)):
            return False, f"captures {ngroups} and {ngroups + 1} are not separated by \\s+"
        i += 1
    return ngroups >= 8, f"{ngroups} capture groups separated by \\s+ (last by \\s*)"


def replay_line(query, line):
    """A line the solver found: feed it to the real reader."""
    import swcgeom.core.swc_utils.io as IO

    try:
        with warnings.catch_warnings():
            warnings.simplefilter("ignore")
            df, _ = IO.parse_swc(io.StringIO(line), names=IO.get_names(None), extra_cols=["w"] if "extra_col" in query else None)
        accepted = len(df) == 1
        what = f"real reader returned {len(df)} row(s)"
    except Exception as e:  # noqa: BLE001
        accepted, what = False, f"real reader raised {e!r}"
    should_accept = query.startswith("grammar_line_accepted") or query.startswith("witness.")
    return dict(reproduced=accepted != should_accept, why=f"{what} for {line!r}")


def replay_direct(blob):
    m = blob["model"]
    if "line" not in m:
        return dict(reproduced=False, why="language-level query without a line witness")
    return replay_line(m.get("query", blob["obligation"]), m["line"])


# --------------------------------------------------------------------------- E1: plumbing around the pattern

# (kind, formatter(id, pid) -> text, expected values or None)
_X = dict(x=1.5, y=-0.5, z=100.0, r=0.25)
STYLES = {
    "plain": lambda i, p: (f"{i} 3 1.5 -0.5 100.0 0.25 {p}\n", (3, 1.5, -0.5, 100.0, 0.25)),
    "blanks_tabs": lambda i, p: (f"  \t{i}\t2\t1.5\t-0.5\t100.0\t0.25\t{p}  \n", (2, 1.5, -0.5, 100.0, 0.25)),
    "spellings": lambda i, p: (f"{i} 3 +1. -.5 1e2 2.5E-1 {p}\n", (3, 1.0, -0.5, 100.0, 0.25)),
    "crlf": lambda i, p: (f"{i} 4 1.5 -0.5 100.0 0.25 {p}\r\n", (4, 1.5, -0.5, 100.0, 0.25)),
    "extra": lambda i, p: (f"{i} 3 1.5 -0.5 100.0 0.25 {p} 0.5 7e0\n", (3, 1.5, -0.5, 100.0, 0.25)),
    "zero_pad": lambda i, p: (f"0{i} 03 001.50 -00.5 100 .25 {p}\n", (3, 1.5, -0.5, 100.0, 0.25)),
    # 16/17 significant digits: the value is the correctly rounded double of the spelling (what float() returns)
    "long_digits": lambda i, p: (f"{i} 3 0.30000000000000004 2.4330600552301110 9299578478580.085 0.1000000000000000055511151231257827 {p}\n",
                                 (3, float("0.30000000000000004"), float("2.4330600552301110"), float("9299578478580.085"), float("0.1000000000000000055511151231257827"))),
}
BAD = {"six_fields": "9 3 1.5 -0.5 100.0 0.25\n", "letter": "9 3 1.5 abc 100.0 0.25 1\n", "garbage": "hello world\n", "float_type": "9 3.0 1.5 -0.5 100.0 0.25 1\n",
       "comma": "9,3,1.5,-0.5,100.0,0.25,1\n", "negative_id": "-9 3 1.5 -0.5 100.0 0.25 1\n", "nan": "9 3 nan 0 0 1 1\n"}
OTHER = {"comment": "# note\n", "comment_indented": "  \t#indented\n", "blank": "\n", "blank_ws": "   \t\n"}


def _build(c, k, base, kinds):
    lines, rows, comments, bad = [], [], [], False
    nid = base
    prev = -1
    for j in range(k):
        kind = c.pick(f"line{j}", kinds)
        if kind in STYLES:
            text, vals = STYLES[kind](nid, prev)
            rows.append((nid, prev) + vals + (kind,))
            prev = nid
            nid += 1
        elif kind in BAD:
            text = BAD[kind]
            bad = True
        else:
            text = OTHER[kind].replace("note", f"note{j}")
            if kind.startswith("comment"):
                comments.append(text.strip().lstrip("#").strip())
        lines.append(text)
    return lines, rows, comments, bad


def _check_table(c, tag, df, rows, base, reset):
    shift = rows[0][0] if (reset and rows) else 0
    c.prove(f"{tag}.one_row_per_data_line", len(df) == len(rows), f"{len(df)} rows, {len(rows)} data lines")
    if len(df) != len(rows):
        return
    for j, (i, p, t, x, y, z, r, kind) in enumerate(rows):
        got = (int(df["id"][j]), int(df["pid"][j]), int(df["type"][j]), float(df["x"][j]), float(df["y"][j]), float(df["z"][j]), float(df["r"][j]))
        want = (i - shift, -1 if p == -1 else p - shift, t, x, y, z, r)
        c.prove(f"{tag}.row_in_order_with_its_values", got == want, f"row {j} ({kind}): got {got} want {want}")


def h_lines(c, k, source):
    """Files of k lines, every line kind of the palette at every position."""
    from swcgeom.core import Tree
    from swcgeom.core.swc_utils import read_swc

    base = c.pick("base", [0, 1, 7])
    lines, rows, comments, bad = _build(c, k, base, list(STYLES) + list(BAD) + list(OTHER))
    if not rows and not bad:
        raise PathAbort()
    text = "".join(lines)
    if c.pick("strip_final_newline", [False, True]):
        text = text.rstrip("\n")
    mk = (lambda: io.StringIO(text)) if source == "text" else (lambda: io.BytesIO(text.encode("utf-8")))
    err = None
    with warnings.catch_warnings(record=True) as w:
        warnings.simplefilter("always")
        try:
            df, got_comments = read_swc(mk())
        except Exception as e:  # noqa: BLE001
            err = e
    if bad:
        c.prove("malformed_line_raises", err is not None, f"file {text!r} was read without an error: {None if err is not None else df.to_dict('list')}")
        terr = None
        try:
            with warnings.catch_warnings():
                warnings.simplefilter("ignore")
                Tree.from_swc(mk())
        except Exception as e:  # noqa: BLE001
            terr = e
        c.prove("malformed_line_raises.Tree.from_swc", terr is not None)
        c.reachable("bad_after_good", bool(rows))
        return
    c.prove("well_formed_file_is_read", err is None, f"{err!r} for {text!r}")
    if err is not None:
        return
    _check_table(c, "read_swc", df, rows, base, True)
    c.prove("comments_in_order", [s.strip() for s in got_comments] == comments, f"{got_comments} vs {comments}")
    has_extra = any(r[-1] == "extra" for r in rows)
    c.prove("extra_fields_only_warn", any("ignored" in str(x.message) for x in w) == has_extra, f"{[str(x.message) for x in w]}")
    c.reachable("extra_fields", has_extra)
    if rows:
        with warnings.catch_warnings():
            warnings.simplefilter("ignore")
            t = Tree.from_swc(mk())
        c.prove("Tree.from_swc.same_rows", t.number_of_nodes() == len(rows) and [int(v) for v in t.pid()] == [int(v) for v in df["pid"]] and [float(v) for v in t.r()] == [float(np.float32(v)) for v in df["r"]])  # (a Tree stores float32 columns)
    c.output("rows", len(rows))


def h_options(c, k):
    """Read options x a reduced palette; undecodable bytes."""
    from swcgeom.core.swc_utils import read_swc

    base = c.pick("base", [0, 2])
    lines, rows, comments, bad = _build(c, k, base, ["plain", "extra", "six_fields", "comment", "blank"])
    if not rows and not bad:
        raise PathAbort()
    sort_nodes = c.pick("sort_nodes", [False, True])
    reset = c.pick("reset_index", [True, False])
    extra_cols = c.pick("extra_cols", [None, ["w"]])
    src = c.pick("source", ["text", "bytes", "bytes_undecodable", "bytes_latin1"])
    text = "".join(lines)
    enc = "utf-8"
    if src == "text":
        f = io.StringIO(text)
    elif src == "bytes":
        f = io.BytesIO(text.encode())
    elif src == "bytes_undecodable":
        f = io.BytesIO(text.encode() + b"# caf\xe9\n" + b"".join(s.encode() for s in lines[:1] if s in OTHER.values()))
    else:
        f = io.BytesIO(text.encode() + "# caf\xe9\n".encode("latin-1"))
        enc = "latin-1"
    need_w = extra_cols is not None and any(r[-1] != "extra" for r in rows)
    err = None
    with warnings.catch_warnings(record=True) as w:
        warnings.simplefilter("always")
        try:
            df, got_comments = read_swc(f, extra_cols=extra_cols, sort_nodes=sort_nodes, reset_index=reset, encoding=enc)
        except Exception as e:  # noqa: BLE001
            err = e
    if bad or src == "bytes_undecodable" or need_w:
        c.prove("bad_input_raises", err is not None, f"read without error: {text!r} src={src} extra_cols={extra_cols}")
        c.reachable("undecodable", src == "bytes_undecodable" and not bad and not need_w)
        c.reachable("missing_extra_col", need_w and not bad)
        return
    c.prove("well_formed_file_is_read", err is None, f"{err!r} for {text!r} {src} {extra_cols} sort={sort_nodes} reset={reset}")
    if err is not None:
        return
    _check_table(c, "options", df, rows, base, reset or sort_nodes)
    if extra_cols:
        c.prove("extra_col_values", [float(v) for v in df["w"]] == [0.5] * len(rows))
    c.prove("comments_in_order", [s.strip() for s in got_comments] == comments + (["caf\xe9"] if src == "bytes_latin1" else []), f"{got_comments}")


def h_sorted(c, n, gap):
    """sort_nodes=True: arbitrary distinct ids in arbitrary row order give a tree isomorphic to the file's graph."""
    from symv.harness.C05 import _table

    from swcgeom.core import Tree
    from swcgeom.core.swc_utils import read_swc

    root, par, ids, pids = _table(c, n, gap)
    style = c.pick("style", ["plain", "blanks_tabs", "crlf"])
    sep = {"plain": " ", "blanks_tabs": "\t", "crlf": " "}[style]
    end = "\r\n" if style == "crlf" else "\n"
    text = "# header\n" + "".join(sep.join([str(ids[i]), "3", f"{i}.5", "0", "0", "1", str(pids[i]), f"{7 * i + 2}.25"]) + end for i in range(n))
    with warnings.catch_warnings():
        warnings.simplefilter("ignore")
        df, _ = read_swc(io.StringIO(text), sort_nodes=True, extra_cols=["w"])
        t = Tree.from_swc(io.BytesIO(text.encode()), sort_nodes=True)
    # every field of a row, requested extra columns included, travels with its row
    c.prove("sorted.frame.extra_column_follows_its_row", len(df) == n and all(float(df["w"][j]) == 7 * int(float(df["x"][j])) + 2.25 for j in range(len(df))), f"{list(df['x'])} / {list(df['w'])}")
    for tag, ids_o, pids_o, xs in (("frame", list(df["id"]), list(df["pid"]), list(df["x"])), ("tree", list(t.id()), list(t.pid()), list(t.x()))):
        c.prove(f"sorted.{tag}.count", len(ids_o) == n)
        if len(ids_o) != n:
            continue
        rows = [int(float(x)) for x in xs]  # x = row + 0.5
        c.prove(f"sorted.{tag}.bijection", sorted(rows) == list(range(n)) and [int(v) for v in ids_o] == list(range(n)))
        if sorted(rows) != list(range(n)):
            continue
        c.prove(f"sorted.{tag}.isomorphic", all((int(pids_o[j]) == -1 and par[rows[j]] == -1) or (int(pids_o[j]) >= 0 and rows[int(pids_o[j])] == par[rows[j]]) for j in range(n)))
        c.prove(f"sorted.{tag}.parents_first", all(int(pids_o[j]) < j for j in range(n)))


def h_lazy(c):
    """A population member with a malformed line raises when its tree is requested (never a shortened tree)."""
    from swcgeom.core.population import LazyLoadingTrees

    good = "1 1 0 0 0 1 -1\n2 3 1 0 0 1 1\n"
    bad = good + BAD[c.pick("bad", list(BAD))] + "3 3 2 0 0 1 2\n"
    lz = LazyLoadingTrees([io.StringIO(good), io.StringIO(bad)])
    c.prove("lazy.good", lz[0].number_of_nodes() == 2)
    try:
        t = lz[1]
        c.prove("lazy.bad_raises", False, f"got a tree with {t.number_of_nodes()} nodes")
    except Exception:  # noqa: BLE001
        c.prove("lazy.bad_raises", True)


REACH = {"lines": ["bad_after_good", "extra_fields"], "options": ["undecodable", "missing_extra_col"]}
HARNESSES = [
    Direct("language", d_language, functions=FUNCTIONS, bounds="lines of ANY length over ASCII 1..126 (z3 sequence theory on the regex compiled by the running code)"),
    H("lines", h_lines, quick=[dict(k=2, source="text"), dict(k=2, source="bytes")], thorough=[dict(k=3, source="text"), dict(k=3, source="bytes")], functions=FUNCTIONS,
      bounds="files of k=2 (quick)/3 (thorough) lines, each from a palette of 6 well-formed spellings, 7 malformed kinds, 2 comment and 2 blank kinds; id base 0/1/7; with/without final newline; text and byte streams"),
    H("options", h_options, quick=[dict(k=2)], thorough=[dict(k=3)], functions=FUNCTIONS, bounds="k=2/3 lines from a reduced palette x sort_nodes x reset_index x extra_cols x {text, utf-8 bytes, undecodable bytes, latin-1 bytes}"),
    H("sorted", h_sorted, quick=[dict(n=2, gap=2), dict(n=3, gap=1)], thorough=[dict(n=4, gap=1)], functions=FUNCTIONS, bounds="every rooted tree on n<=3/4 rows x every injective id labelling from [0,n+gap), three line styles"),
    H("lazy", h_lazy, quick=[dict()], thorough=[dict()], functions=FUNCTIONS, bounds="one malformed member of each kind"),
]
