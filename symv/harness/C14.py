"""C14 - tree volume is the volume of the union of node spheres and connecting frusta."""
import numpy as np

from symv.api import And, Not, Or, dist, eq, ite
from symv.harness.C13 import G_cone, S_sphere, _perp_stub, h_unit_vector
from symv.runner import H
from symv.stubs import sdf_stubs
from symv.trees import mk_col, sym_tree

FUNCTIONS = ["swcgeom.analysis.volume.get_volume", "_get_volume_frustum_cone (leave callback, accuracy gates)", "swcgeom.core.tree.Tree.traverse", "swcgeom.core.node.Node.xyz/r",
             "swcgeom.utils.volumetric_object.VolSphere/VolFrustumCone/VolSphereFrustumConeIntersection.calc_concentric_intersect_volume/VolSphere2Intersection (as in C13)"]
STUBS = ["sdflit constructors / _tp3f: inert (as in C13); any Monte-Carlo call raises OutsideClaim", "find_unit_vector_on_plane: any unit vector of the normal plane (as in C13)"]
ASSUMPTIONS = ["floats as reals; PI symbolic constant", "levels 1 and 2: any tree, any coordinates, radii > 0",
               "levels >= 3: collinear tree along a coordinate axis through an arbitrary point; every compartment at least as long as both end radii; nodes in monotone order along the line (non-adjacent parts do not touch); radii of a compartment either equal or more than 1e-6 apart (the code's tolerance band); compartment longer than np.allclose's tolerance at its end coordinates",
               "oracle for one compartment: integral of the maximal cross-section along the axis (hemisphere, cone up to the height where the far sphere takes over, far sphere), with that height defined implicitly; whole tree: sum over compartments minus the node spheres shared by two compartments"]
OUTSIDE = ["IEEE rounding", "accuracy 10 and, at accuracy >= 5, nodes with two or more children (Monte-Carlo inside sdflit)", "oblique lines", "non-collinear trees at accuracy >= 3", "trees above the node bound"]


def _sphere_vol(c, r):
    return S_sphere(c, r, r) - S_sphere(c, r, -r)


def h_levels_1_2(c, n):
    from swcgeom.analysis import get_volume

    t, a = sym_tree(c, n, mode="any")
    acc = c.int("accuracy", 1, 2)
    with sdf_stubs(c):
        v = get_volume(t, accuracy=acc if c.mode == "sym" else int(acc))
    lvl = c.concretize(acc)
    want = sum(_sphere_vol(c, r) for r in a["r"])
    if lvl >= 2:
        for i in range(1, n):
            p = a["pid"][i]
            h = dist([a[k][p] for k in "xyz"], [a[k][i] for k in "xyz"])
            want = want + c.pi() * h * (a["r"][p] * a["r"][p] + a["r"][p] * a["r"][i] + a["r"][i] * a["r"][i]) / 3
    c.prove_eq(f"level{lvl}", v, want)
    c.prove("input_untouched", And(*[eq(x, y) for x, y in zip(list(t.r()), a["r"])]))
    # the volume is a function of the tree AS IT IS NOW: change a radius through a node handle and measure the same object again
    if n >= 1:
        k = c.choice("edit", n)
        newr = c.real("new_r", lo=0, lo_strict=True)
        t.node(k).r = newr
        r2 = list(a["r"])
        r2[k] = newr
        with sdf_stubs(c):
            v2 = get_volume(t, accuracy=lvl)
        want2 = sum(_sphere_vol(c, r) for r in r2)
        if lvl >= 2:
            for i in range(1, n):
                p = a["pid"][i]
                h = dist([a[kk][p] for kk in "xyz"], [a[kk][i] for kk in "xyz"])
                want2 = want2 + c.pi() * h * (r2[p] * r2[p] + r2[p] * r2[i] + r2[i] * r2[i]) / 3
        c.prove_eq(f"level{lvl}.after_in_place_edit", v2, want2)
    c.output("volume", v)


def _edge_union(c, tag, rp, rc, L):
    """Volume of sphere(rp) at 0, frustum rp->rc of length L, sphere(rc) at L, for L >= max(rp, rc):
    integral of the maximal cross-section."""
    k = (rc - rp) / L
    if c.mode == "sym":
        sgn = 1 if bool(rc > rp) else (-1 if bool(rc < rp) else 0)
    else:
        sgn = 1 if rc > rp else (-1 if rc < rp else 0)
    if sgn < 0:  # mirror image
        rp, rc, k = rc, rp, -k
    # now rc >= rp: the near sphere is below the cone on [0, rp]; the far sphere takes over at distance u* before its centre
    if sgn == 0:
        us = 0
    elif c.mode == "sym":
        us = c.real(f"oracle.us.{tag}", lo=0, lo_strict=True)
        c.assume(eq((rc - k * us) * (rc - k * us), rc * rc - us * us))
    else:
        us = 2 * rc * k / (k * k + 1)
    hemi = S_sphere(c, rp, 0) - S_sphere(c, rp, -rp)
    cone = G_cone(c, rp, k, L - us) - G_cone(c, rp, k, 0)
    far = S_sphere(c, rc, rc) - S_sphere(c, rc, -us)
    return hemi + cone + far


def h_collinear(c, shape, axis, sign, equal_r=False, origin0=False):
    from swcgeom.analysis import get_volume
    from swcgeom.core import Tree

    eps = 1e-6
    pid = {"two": [-1, 0], "chain3": [-1, 0, 1], "middle": [-1, 0, 0], "chain4": [-1, 0, 1, 2]}[shape]
    n = len(pid)
    r = [c.real(f"r{i}", lo=0, lo_strict=True) for i in range(n)]
    if equal_r:
        r = [r[0]] * n  # cylinders: one symbolic radius
    o = [0, 0, 0] if origin0 else [c.real("o" + k) for k in "xyz"]  # origin0: the line passes through the origin (small-scale inputs replay without float32 offset noise)
    L = [None] + [c.real(f"L{i}", lo=0, lo_strict=True) for i in range(1, n)]
    tpos = [0] * n
    for i in range(1, n):
        d = sign * L[i]
        if shape == "middle" and i == 2:
            d = -d  # the second arm on the opposite side of the root
        tpos[i] = tpos[pid[i]] + d
    for i in range(1, n):
        p = pid[i]
        c.assume(And(L[i] >= r[p], L[i] >= r[i]))
        c.assume(Or(eq(r[p], r[i]), r[p] - r[i] > eps, r[i] - r[p] > eps))
        c.assume(And(L[i] > 1e-8 + 1e-5 * abs(o[axis] + tpos[i]), L[i] > 1e-8 + 1e-5 * abs(o[axis] + tpos[p])))
    cols = {k: [o[j] + (tpos[i] if j == axis else 0) for i in range(n)] for j, k in enumerate("xyz")}
    t = Tree(n, pid=np.array(pid, dtype=np.int32), type=np.array([1] + [3] * (n - 1), dtype=np.int32), x=mk_col(c, cols["x"]), y=mk_col(c, cols["y"]), z=mk_col(c, cols["z"]), r=mk_col(c, r))
    acc = c.int("accuracy", 3, 9)
    with sdf_stubs(c, perp=_perp_stub(c, axis)):
        v = get_volume(t, accuracy=acc if c.mode == "sym" else int(acc))
    v = c.simp(v)
    want = 0
    for i in range(1, n):
        want = want + _edge_union(c, str(i), r[pid[i]], r[i], L[i])
    deg = [sum(1 for p in pid if p == i) + (0 if i == 0 else 1) for i in range(n)]
    for i in range(n):
        if deg[i] > 1:
            want = want - (deg[i] - 1) * _sphere_vol(c, r[i])
    c.prove_eq("collinear.volume_of_union", v, want)
    c.reachable("overlapping_neighbours", r[0] + r[1] > L[1])
    c.reachable("level_ge_5", acc >= 5)
    c.output("volume", v)


def h_feature(c):
    """extract_feature(tree).get('volume') is get_volume at its default accuracy (concrete smoke path)."""
    import io
    import warnings

    from swcgeom.analysis import extract_feature, get_volume
    from swcgeom.core import Tree

    with warnings.catch_warnings():
        warnings.simplefilter("ignore")
        t = Tree.from_swc(io.StringIO("1 1 0 0 0 1 -1\n2 3 2 0 0 0.5 1\n3 3 4.5 0 0 1 2\n"))
        from symv.api import flat

        with sdf_stubs(c, perp=_perp_stub(c, 0)):
            a = flat(extract_feature(t).get("volume"))[0]
            b = get_volume(t)
    c.prove_eq("feature.volume_is_get_volume", a, b)


REACH = {"collinear": ["overlapping_neighbours", "level_ge_5"]}
HARNESSES = [
    H("levels_1_2", h_levels_1_2, quick=[dict(n=k) for k in (1, 2, 3)], thorough=[dict(n=4)], functions=FUNCTIONS, bounds="every numbering of every tree with n<=3/4 nodes; symbolic coordinates and radii (>0); accuracy a symbolic integer in {1,2}"),
    H("collinear", h_collinear, quick=[dict(shape="two", axis=0, sign=1), dict(shape="two", axis=2, sign=-1), dict(shape="middle", axis=1, sign=1, equal_r=True), dict(shape="two", axis=1, sign=1, origin0=True)],
      thorough=[dict(shape="two", axis=a, sign=s) for a, s in ((0, 1), (0, -1), (1, 1), (1, -1), (2, 1), (2, -1))] + [dict(shape="middle", axis=1, sign=1, equal_r=True), dict(shape="two", axis=1, sign=1, origin0=True)],
      functions=FUNCTIONS, opts=dict(oblig_timeout_ms=dict(quick=120000, thorough=600000)), expect_outside=True,
      bounds="2-node tree on +x / -z and 3-node root-in-the-middle on y with one common symbolic radius (quick); 2-node tree on all six directions, 3-node root-in-the-middle with one common radius (thorough; the 3-node chain and the root-in-the-middle with unequal radii exceed the time budget and are outside the claim); radii and lengths any reals with L >= both radii; accuracy a symbolic integer in [3,9]"),
    H("unit_vector", h_unit_vector, quick=[dict()], thorough=[dict()], functions=FUNCTIONS + ["swcgeom.utils.solid_geometry.find_unit_vector_on_plane"], expect_outside=True,
      opts=dict(oblig_timeout_ms=dict(quick=60000, thorough=300000)),
      bounds="contract of the randomness stub: the real find_unit_vector_on_plane returns a unit vector perpendicular to ANY unit normal (oblique directions included) for every accepted random draw"),
    H("feature", h_feature, quick=[dict()], thorough=[dict()], functions=FUNCTIONS + ["swcgeom.analysis.feature_extractor.extract_feature(...).get('volume')"], bounds="one concrete tree (front-end plumbing only)", validate=False),
]
