"""C20 - image stacks survive save/load; the rasteriser hands the right geometry to the renderer (REDUCED SCOPE).

The voxels themselves pass through compiled code that cannot be encoded (TIFF/NRRD codecs, sdflit's SDF evaluation). What is swcgeom's
own - axis bookkeeping, dtype rescaling, bounding box / voxel-centre arithmetic, one round cone per edge - is executed symbolically
with the libraries replaced by containers/recorders; every path witness is then replayed through the REAL tifffile on a temp file.
"""
import itertools
import os
import tempfile

import numpy as np

from symv.api import And, Or, eq, flat, le
from symv.engine import PathAbort
from symv.runner import H
from symv.trees import col, sym_tree

FUNCTIONS = ["swcgeom.images.io.save_tiff", "read_imgs (dispatch)", "NDArrayImageStack.__init__", "TiffImageStack.__init__", "swcgeom.transforms.image_stack.ToImageStack.__init__/__call__/transform/_get_scene/_get_samplers"]
ASSUMPTIONS = ["tifffile.imwrite / TiffFile(...).series[0] are a container of the written array and its 'axes' metadata (contract; every path witness is replayed through the real tifffile on a temporary file)",
               "voxel values: symbolic reals in [0,1] for float stacks (they act as labels for the axis bookkeeping); for float -> unsigned conversion one voxel is symbolic with 255*v < 3 (the truncation forks), the others are concrete",
               "documented rescaling: unsigned -> float divides by the dtype maximum, float -> unsigned multiplies by it and truncates, otherwise a plain cast",
               "rasteriser: sdflit is a recorder (RoundCone / SDFObject / ObjectsScene / RangeSampler); its contract 'a voxel is lit iff its centre is inside the union' is assumed, not checked"]
OUTSIDE = ["bytes written by tifffile / pynrrd, NRRD and V3D readers, TeraFly stacks", "which voxels sdflit lights (compiled SDF evaluation)", "IEEE rounding", "stacks and trees above the bound"]
STUBS = ["tifffile (container stub under symbolic execution; real library in the witness replay)", "os.path.exists inside swcgeom.images.io (true for files the stub holds)", "sdflit classes inside swcgeom.transforms.image_stack (recorders)"]


# ------------------------------------------------------------------ stack save -> load


class _FS:
    def __init__(self):
        self.files = {}


def _tiff_stub(fs):
    class _Series:
        def __init__(self, data, axes):
            self._d, self.axes = data, axes

        def asarray(self):
            return self._d

    class _TiffFile:
        def __init__(self, fname, **k):
            data, axes = fs.files[fname]
            self.series = [_Series(data, axes)]

        def __enter__(self):
            return self

        def __exit__(self, *a):
            return False

    class _Mod:
        TiffFile = _TiffFile

        @staticmethod
        def imwrite(fname, data, **kw):
            fs.files[fname] = (data, kw.get("metadata", {}).get("axes"))

    return _Mod


class _io_env:
    """Under symbolic execution: tifffile and os.path.exists of swcgeom.images.io are stubs; concretely: a real temp dir."""

    def __init__(self, c):
        self.c = c

    def __enter__(self):
        import swcgeom.images.io as IO

        self.IO = IO
        if self.c.mode == "sym":
            self.fs = _FS()
            self.saved = (IO.tifffile, IO.os)
            IO.tifffile = _tiff_stub(self.fs)

            class _P:
                exists = staticmethod(lambda f: f in self.fs.files)
                splitext = staticmethod(os.path.splitext)

            class _OS:
                path = _P

            IO.os = _OS
            self.dir = "/stub"
        else:
            self.tmp = tempfile.TemporaryDirectory(prefix="c20_")
            self.dir = self.tmp.name
        return self

    def __exit__(self, *a):
        if self.c.mode == "sym":
            self.IO.tifffile, self.IO.os = self.saved
        else:
            self.tmp.cleanup()
        return False


def _stack(c, shape, kind, maxv=255):
    """kind 'real': symbolic reals in [0,1]; 'u8': concrete distinct uint8 values; 'mixed': one symbolic real (255 v < 3), rest concrete floats."""
    n = int(np.prod(shape))
    if kind == "u8":
        vals = [(37 * i + 11) % 256 for i in range(n)]
        return np.array(vals, dtype=np.uint8).reshape(shape), vals
    if kind == "real":
        vals = [c.real(f"v{i}", lo=0, hi=1) for i in range(n)]
    else:
        v0 = c.real("v0", lo=0, hi=1)
        c.assume(v0 * maxv < 3)
        vals = [v0] + [(((53 * i + 7) % 255) + 0.5) / 255.0 for i in range(1, n)]  # away from the truncation edges
    if c.mode == "sym":
        from symv.symnp import SArr

        arr = SArr(vals, np.float32).reshape(shape)
    else:
        arr = np.array([float(v) for v in vals], dtype=np.float32).reshape(shape)
    return arr, vals


def _floor255(c, v):
    if c.mode == "sym":
        from symv.engine import Sym

        if isinstance(v, Sym):
            return (v * 255).floor()
    return int(np.float32(float(v)) * np.float32(255)) if False else int(float(np.float32(v) * 255))


def h_tiff_round_trip(c, shape, kind, save_dtype, load_dtype):
    """save_tiff -> read_imgs: same (X,Y,Z,C) shape, voxel values equal up to the documented rescaling."""
    with _io_env(c) as env:
        IO = env.IO
        data, vals = _stack(c, shape, kind)
        fname = os.path.join(env.dir, "s.tif")
        sd = {None: None, "u8": np.uint8, "f32": np.float32}[save_dtype]
        ld = {"u8": np.uint8, "f32": np.float32}[load_dtype]
        IO.save_tiff(data, fname, dtype=sd) if sd is not None else IO.save_tiff(data, fname)
        # saving must not change the caller's stack; saving it a second time writes the same file
        c.prove("tiff.input_untouched", And(*[eq(g, v) for g, v in zip(flat(data), vals)]) and tuple(data.shape) == tuple(shape))
        IO.save_tiff(data, fname, dtype=sd) if sd is not None else IO.save_tiff(data, fname)
        out = IO.read_imgs(fname, dtype=ld)
        full = out.get_full()
        shape4 = tuple(shape) if len(shape) == 4 else tuple(shape) + (1,)
        c.prove("tiff.shape", tuple(out.shape) == shape4 and tuple(full.shape) == shape4, f"{tuple(out.shape)} vs {shape4}")
        if tuple(full.shape) != shape4:
            return
        got = flat(full)
        in_float = kind != "u8"
        stored_uint = (sd is np.uint8) if in_float else (sd is None or sd is np.uint8)
        conds = []
        for g, v in zip(got, vals):
            if in_float and not stored_uint:
                want = v if ld is np.float32 else None  # float file read as uint: floor(255 v)
                if ld is np.uint8:
                    conds.append(int(g) == _floor255(c, v) if not _is_sym(v) else eq(g, _floor255(c, v)))
                else:
                    conds.append(eq(g, want))
            elif in_float and stored_uint:
                q = int(_floor255(c, v))  # (already concrete on this path: the conversion to uint8 forked on it)
                conds.append(int(g) == q if ld is np.uint8 else abs(float(g) * 255 - q) < 1e-3)
            elif not in_float and stored_uint:
                conds.append(int(g) == v if ld is np.uint8 else eq(g * 255, v))
            else:  # uint8 saved as float32: v / 255 in the file
                conds.append(eq(g * 255, v) if ld is np.float32 else True)
        c.prove("tiff.values", And(*conds), f"shape {shape} kind {kind} save {save_dtype} load {load_dtype}")
        c.output("n", len(got))


def _is_sym(v):
    from symv.engine import Sym

    return isinstance(v, Sym)


def h_axes(c, ndim):
    """A TIFF whose array is stored in ANY axis order, declared by its axes string, is loaded as (X, Y, Z, C)."""
    with _io_env(c) as env:
        IO = env.IO
        names = "XYZC"[:ndim]
        shape = (2, 3, 2, 3)[:ndim]
        perm = list(itertools.permutations(range(ndim)))[c.choice("perm", len(list(itertools.permutations(range(ndim)))))]
        n = int(np.prod(shape))
        vals = [float(i) for i in range(n)]
        base = np.array(vals, dtype=np.float32).reshape(shape)  # indexed (x, y, z[, c])
        stored = np.transpose(base, perm)
        axes = "".join(names[p] for p in perm)
        fname = os.path.join(env.dir, "a.tif")
        if c.mode == "sym":
            env.fs.files[fname] = (stored, axes)
        else:
            import tifffile

            tifffile.imwrite(fname, stored, metadata={"axes": axes}, photometric="minisblack")
        out = IO.read_imgs(fname, dtype=np.float32).get_full()
        shape4 = tuple(shape) + (1,) * (4 - ndim)
        c.prove("axes.shape", tuple(out.shape) == shape4, f"axes {axes}: {tuple(out.shape)} vs {shape4}")
        if tuple(out.shape) == shape4:
            c.prove("axes.values", bool((np.asarray(out, dtype=np.float32).reshape(shape) == base).all()), f"axes {axes}")


def h_ndarray(c, kind, dtype):
    """NDArrayImageStack(array, dtype=...): the documented conversion, voxel by voxel; also through read_imgs on a .npy file."""
    from swcgeom.images.io import NDArrayImageStack

    shape = (2, 1, 2)
    data, vals = _stack(c, shape, kind, maxv=65535 if dtype == "u16" else 255)
    dt = {"u8": np.uint8, "f32": np.float32, "u16": np.uint16, None: None}[dtype]
    out = NDArrayImageStack(data, dtype=dt) if dt is not None else NDArrayImageStack(data)
    c.prove("ndarray.shape", tuple(out.shape) == shape + (1,))
    got = flat(out.get_full())
    conds = []
    for g, v in zip(got, vals):
        if kind == "u8":
            conds.append(eq(g * 255, v) if dt is np.float32 else (int(g) == v))
        elif dt in (np.uint8, np.uint16):
            m = 255 if dt is np.uint8 else 65535
            if _is_sym(v):
                conds.append(eq(g, (v * m).floor()))
            else:
                conds.append(abs(int(g) - int(float(np.float32(v)) * m)) <= 1)
        else:
            conds.append(eq(g, v))
    c.prove("ndarray.values", And(*conds), f"kind {kind} dtype {dtype}")
    c.prove("ndarray.indexing", eq(out[1, 0, 1, 0], got[3]) and tuple(out[0].shape) == (1, 2, 1))


# ------------------------------------------------------------------ rasteriser geometry


class _Rec:
    def __init__(self, kind, *a):
        self.kind, self.args = kind, a

    def into(self):
        return self


def h_raster(c, n):
    """ToImageStack: one round cone per (parent, child) pair with their positions and radii; sampling starts at the voxel centre
    floor(min(p - r)) + res/2, one slab per z step below ceil(max(p + r)); frames stacked as (Z, X, Y)."""
    import swcgeom.transforms.image_stack as M

    t, a = sym_tree(c, n, mode="any")
    for k in "xyz":
        for v in a[k]:
            c.assume(And(v >= 0, v <= 2))
    for v in a["r"]:
        c.assume(v <= 1)
    res = [c.pick("rx", [1, 0.5]), 1, c.pick("rz", [1, 0.5, 2, 0.75])]
    cones, samplers, scene_log = [], [], []

    class Scene_:
        def __init__(self):
            self.objs = []

        def set_background(self, bg):
            scene_log.append(("bg", bg))

        def add_object(self, o):
            self.objs.append(o)

        def build_bvh(self):
            scene_log.append(("bvh", len(self.objs)))

        def into(self):
            return self

    class Sampler_:
        def __init__(self, lo, hi, stride):
            self.lo, self.hi, self.stride = lo, hi, stride
            samplers.append(self)

        def sample(self, scene):
            v = np.zeros((2, 3, 1, 3), dtype=np.float32)
            v[0, 0, 0, 0] = len(samplers) / 255.0  # tags the frame with its slab number
            return v

    saved = {k: getattr(M, k) for k in ("ColoredMaterial", "ObjectsScene", "RoundCone", "SDFObject", "RangeSampler", "_tp3f")}
    M.ColoredMaterial = lambda col_: _Rec("material", col_)
    M.ObjectsScene = Scene_
    M.RoundCone = lambda p, q, r1, r2: (cones.append((p, q, r1, r2)) or _Rec("cone", p, q, r1, r2))
    M.SDFObject = lambda sdf, mat: _Rec("obj", sdf, mat)
    M.RangeSampler = Sampler_
    M._tp3f = lambda x: tuple(flat(x))
    failed = None
    edit_x = c.real("edit_x", lo=0, hi=2)
    try:
        tis = M.ToImageStack(resolution=res)
        out = tis(t)
        n_first = len(cones)
        # the same transform object renders the same tree again after one node was moved through its handle
        first_cones, first_samplers = list(cones), list(samplers)
        del cones[:]
        t.node(n - 1).x = edit_x
        try:
            tis(t)
        except ValueError:
            pass
        second_cones = list(cones)
        del cones[:]
        cones.extend(first_cones)
        del samplers[len(first_samplers):]
        t.node(n - 1).x = a["x"][n - 1]
    except ValueError as e:
        failed = e
    finally:
        for k, v in saved.items():
            setattr(M, k, v)
    pid = a["pid"]
    P = lambda i: (a["x"][i], a["y"][i], a["z"][i])
    c.prove("raster.one_cone_per_edge", len(cones) == n - 1, f"{len(cones)} cones for {n - 1} edges")
    want = sorted((pid[i], i) for i in range(1, n))
    matched = []
    for (p, q, r1, r2) in cones:
        hit = [e for e in want if e not in matched and bool(And(*[eq(u, v) for u, v in zip(p, P(e[0]))] + [eq(u, v) for u, v in zip(q, P(e[1]))] + [eq(r1, a["r"][e[0]]), eq(r2, a["r"][e[1]])]))]
        c.prove("raster.cone_is_an_edge", bool(hit), "a cone does not join a parent and its child with their radii")
        if hit:
            matched.append(hit[0])
    c.prove("raster.every_edge_has_a_cone", sorted(matched) == want)
    if failed is None:
        # second rendering: every cone that touches the moved node carries its NEW position
        moved = n - 1
        newP = lambda i: (edit_x, a["y"][i], a["z"][i]) if i == moved else P(i)
        ok2 = len(second_cones) == n - 1
        m2 = []
        for (p, q, r1, r2) in second_cones:
            hit = [e for e in want if e not in m2 and bool(And(*[eq(u, v) for u, v in zip(p, newP(e[0]))] + [eq(u, v) for u, v in zip(q, newP(e[1]))]))]
            if hit:
                m2.append(hit[0])
        c.prove("raster.second_rendering_uses_the_edited_tree", ok2 and sorted(m2) == want, f"{len(second_cones)} cones, matched {sorted(m2)}")
    # sampling box
    from symv.api import vmax, vmin

    lo = [None] * 3
    hi = [None] * 3
    for d, k in enumerate("xyz"):
        mn, mx = a[k][0] - a["r"][0], a[k][0] + a["r"][0]
        for i in range(1, n):
            mn, mx = vmin(mn, a[k][i] - a["r"][i]), vmax(mx, a[k][i] + a["r"][i])
        lo[d], hi[d] = mn, mx
    fl = lambda v: v.floor() if _is_sym(v) else np.floor(v)
    ce = lambda v: v.ceil() if _is_sym(v) else np.ceil(v)
    if failed is not None:
        # (known finding) no z-slab at all: the stack of frames is empty and np.stack raises
        c.prove("raster.raises_only_when_the_box_holds_no_voxel_centre_in_z", And(len(samplers) == 0, fl(lo[2]) + res[2] / 2 >= ce(hi[2])), repr(failed))
        c.prove("raster.produces_a_stack", False, f"ToImageStack raised {failed!r}: the z extent of the bounding box [floor(min z-r), ceil(max z+r)) contains no voxel centre at this resolution")
        return
    c.prove("raster.at_least_one_slab", len(samplers) >= 1)
    s0 = samplers[0]
    c.prove("raster.first_voxel_centre", And(*[eq(s0.lo[d], fl(lo[d]) + res[d] / 2) for d in range(3)]), "sampling does not start at the centre of the first voxel of the bounding box")
    c.prove("raster.box_upper_corner", And(eq(s0.hi[0], ce(hi[0])), eq(s0.hi[1], ce(hi[1]))))
    c.prove("raster.stride", And(*[eq(s0.stride[d], res[d]) for d in range(3)]))
    zs = [s.lo[2] for s in samplers]
    c.prove("raster.slabs", And(*[eq(zs[k], fl(lo[2]) + res[2] / 2 + k * res[2]) for k in range(len(zs))] + [zs[-1] < ce(hi[2]), zs[-1] + res[2] >= ce(hi[2])]),
            f"{len(zs)} slabs")
    c.prove("raster.slab_thickness", And(*[And(s.hi[2] > s.lo[2], s.hi[2] < s.lo[2] + res[2]) for s in samplers]))
    c.prove("raster.frames_stacked_z_first", tuple(out.shape) == (len(samplers), 2, 3) and [int(v) for v in out[:, 0, 0]] == list(range(1, len(samplers) + 1)), str(out.shape))
    c.reachable("several_slabs", len(samplers) >= 2)
    c.output("slabs", len(samplers))


REACH = {"raster": ["several_slabs"]}
SHAPES = [(2, 1, 3), (1, 2, 2, 1), (2, 1, 2, 3)]
HARNESSES = [
    H("tiff_round_trip", h_tiff_round_trip,
      quick=[dict(shape=s, kind="real", save_dtype=None, load_dtype="f32") for s in SHAPES] + [dict(shape=(2, 1, 2), kind="u8", save_dtype=sd, load_dtype=ld) for sd in (None, "f32") for ld in ("u8", "f32") if not (sd == "f32" and ld == "u8")]
      + [dict(shape=(2, 1, 2), kind="mixed", save_dtype="u8", load_dtype=ld) for ld in ("u8", "f32")],
      thorough=[dict(shape=s, kind=k, save_dtype=sd, load_dtype=ld) for s in SHAPES for k, sd, ld in (("real", None, "f32"), ("u8", None, "f32"), ("u8", None, "u8"), ("mixed", "u8", "f32"), ("mixed", "u8", "u8"))],
      functions=FUNCTIONS, bounds="stack shapes (2,1,3), (1,2,2,1), (2,1,2,3): size-1 axes, 1 and 3 channels; float32 voxels symbolic in [0,1]; uint8 voxels concrete; save dtype none/uint8/float32, load dtype uint8/float32"),
    H("axes", h_axes, quick=[dict(ndim=3), dict(ndim=4)], thorough=[dict(ndim=3), dict(ndim=4)], functions=FUNCTIONS, bounds="every permutation of the axes string (6 for XYZ, 24 for XYZC) on a (2,3,2[,3]) stack"),
    H("ndarray", h_ndarray, quick=[dict(kind="real", dtype=None), dict(kind="real", dtype="f32"), dict(kind="u8", dtype="f32"), dict(kind="u8", dtype="u8"), dict(kind="mixed", dtype="u8"), dict(kind="mixed", dtype="u16")],
      thorough=[dict(kind="mixed", dtype="u8"), dict(kind="mixed", dtype="u16"), dict(kind="u8", dtype="f32")], functions=FUNCTIONS, bounds="(2,1,2) stacks, conversions float<->uint8/uint16"),
    H("raster", h_raster, quick=[dict(n=2)], thorough=[dict(n=3)], functions=FUNCTIONS, opts=dict(merge_minmax=True),
      bounds="trees of n=2 (quick) / 3 (thorough) nodes, coordinates symbolic in [0,2], radii in (0,1], resolution from {1, 0.5} x {1} x {1, 0.5, 2, 0.75}"),
]
