"""C04 - tree traversal is structural recursion (any numbering with the root at 0, any start node,
any enter/leave callbacks = uninterpreted functions)."""
import sys

import numpy as np

from symv.api import And, eq, total
from symv.runner import H, Direct
from symv.trees import children_of, descendants, topology

FUNCTIONS = ["swcgeom.core.swc_utils.base.traverse", "_traverse_dfs", "swcgeom.core.tree.Tree.traverse", "Tree.Node.traverse"]
ASSUMPTIONS = ["callbacks are modelled by uninterpreted functions E0(i), E(i,parent value), L(i, sum of G(child value)) over the integers: an obligation proved for them holds for every pure callback",
               "tree rooted at node 0, ids = positions; numbering otherwise arbitrary (parents need not precede children)"]
OUTSIDE = ["callbacks with side effects on the tree being traversed", "trees above the node bound (except the auxiliary concrete depth run)"]


def _reference(c, pid, start, E0, E, L, G, use_enter, use_leave):
    ch = children_of(pid)

    def rec(i, pv, first):
        ev = None
        if use_enter:
            ev = E0(i) if first else E(i, pv)
        vals = [rec(k, ev, False) for k in ch[i]]
        if use_leave:
            return L(i, total([G(v) for v in vals]) if vals else 0, len(vals))
        return None

    return rec(start, None, True)


def h_traverse(c, n, entry, cb):
    from swcgeom.core import Tree
    from swcgeom.core.swc_utils import traverse

    pid = topology(c, n, "any")
    start = c.choice("start", n)
    use_enter, use_leave = cb in ("both", "enter"), cb in ("both", "leave")
    E0, E, L, G = c.uf("E0", 1), c.uf("E", 2), c.uf("L", 3), c.uf("G", 1)
    log = []
    entered, left = {}, {}

    def ident(x):
        return int(x if entry == "topology" else x.id)

    def enter(node, pv):
        i = ident(node)
        v = E0(i) if pv is None else E(i, pv)
        log.append(("enter", i, pv))
        entered.setdefault(i, []).append(v)
        return v

    def leave(node, vals):
        i = ident(node)
        vals = list(vals)
        v = L(i, total([G(x) for x in vals]) if vals else 0, len(vals))
        log.append(("leave", i, vals))
        left.setdefault(i, []).append(v)
        return v

    kw = {}
    if use_enter:
        kw["enter"] = enter
    if use_leave:
        kw["leave"] = leave
    ids = np.arange(n, dtype=np.int32)
    pids = np.array(pid, dtype=np.int32)
    if entry == "topology":
        res = traverse((ids, pids), root=start, **kw)
    else:
        t = Tree(n, pid=pids)
        res = t.traverse(root=start, **kw) if entry == "tree" else t.node(start).traverse(**kw)

    sub = descendants(pid, start)
    ch = children_of(pid)
    pos = {(k, i): j for j, (k, i, _) in enumerate(log)}
    if use_enter:
        c.prove("enter.exactly_once_in_subtree", sorted(i for k, i, _ in log if k == "enter") == sub)
        ok_none = all((pv is None) == (i == start) for k, i, pv in log if k == "enter")
        c.prove("enter.start_gets_nothing", ok_none)
        for k, i, pv in log:
            if k == "enter" and i != start and pv is not None and pid[i] in entered:
                c.prove_eq(f"enter.parent_value.{i}", pv, entered[pid[i]][0])
                c.prove(f"enter.after_parent.{i}", pos[("enter", pid[i])] < pos[("enter", i)])
    if use_leave:
        c.prove("leave.exactly_once_in_subtree", sorted(i for k, i, _ in log if k == "leave") == sub)
        for k, i, vals in log:
            if k != "leave":
                continue
            kids = ch[i]
            c.prove(f"leave.arity.{i}", len(vals) == len(kids))
            if all(kk in left for kk in kids):
                c.prove(f"leave.after_children.{i}", all(pos[("leave", kk)] < pos[("leave", i)] for kk in kids))
                if kids and len(vals) == len(kids):
                    c.prove_eq(f"leave.child_values.{i}", total([G(v) for v in vals]), total([G(left[kk][0]) for kk in kids]))
            if use_enter and ("enter", i) in pos:
                c.prove(f"leave.after_enter.{i}", pos[("enter", i)] < pos[("leave", i)])
        ref = _reference(c, pid, start, E0, E, L, G, use_enter, use_leave)
        c.prove("result.is_start_value", res is not None)
        if res is not None:
            c.prove_eq("result.structural_recursion", res, ref)
            c.output("result", res)
    else:
        c.prove("result.none_without_leave", res is None)
    c.reachable("nontrivial_subtree", len(sub) > 1 and len(sub) < n)


def h_after_edit(c, n, how):
    """The traversal follows the tree AS IT IS NOW: traverse once, change the topology (in place through a node handle, or by
    re-rooting without sorting a tree that was already traversed), traverse again; the second result must be the structural
    recursion over the edited parent table."""
    from swcgeom.core import Tree, redirect_tree

    pid = topology(c, n, "any")
    E0, E, L, G = c.uf("E0", 1), c.uf("E", 2), c.uf("L", 3), c.uf("G", 1)

    def run(t, start):
        seen = []

        def enter(node, pv):
            i = int(node.id)
            seen.append(i)
            return E0(i) if pv is None else E(i, pv)

        def leave(node, vals):
            vals = list(vals)
            return L(int(node.id), total([G(x) for x in vals]) if vals else 0, len(vals))

        return t.traverse(root=start, enter=enter, leave=leave), seen

    t = Tree(n, pid=np.array(pid, dtype=np.int32))
    first, _ = run(t, 0)
    c.prove_eq("first.structural_recursion", first, _reference(c, pid, 0, E0, E, L, G, True, True))
    if how == "setter":
        # move node k (not the root) under another node j that is not in its own subtree
        k = 1 + c.choice("k", n - 1)
        cands = [j for j in range(n) if j not in descendants(pid, k)]
        j = cands[c.choice("j", len(cands))]
        t.node(k).pid = j
        new_pid = list(pid)
        new_pid[k] = j
        t2, start = t, 0
    else:
        k = c.choice("k", n)
        t2 = redirect_tree(t, k, sort=False)
        new_pid = [int(v) for v in t2.pid()]
        start = k
    second, seen = run(t2, start)
    c.prove("second.visits_the_edited_subtree", sorted(seen) == descendants(new_pid, start), f"{sorted(seen)} vs {descendants(new_pid, start)}")
    c.prove_eq("second.structural_recursion", second, _reference(c, new_pid, start, E0, E, L, G, True, True))
    c.reachable("topology_changed", new_pid != pid)


def d_depth(tier):
    """Auxiliary, NOT solver-based: a concrete chain of 10^5 nodes under the default recursion limit."""
    import time

    from swcgeom.core import Tree
    from swcgeom.core.swc_utils import traverse

    n = 100_000
    t0 = time.time()
    ids, pids = np.arange(n, dtype=np.int32), np.arange(-1, n - 1, dtype=np.int32)
    out = []
    try:
        depth = traverse((ids, pids), enter=lambda i, p: 0 if p is None else p + 1, leave=lambda i, ch: 1 + (ch[0] if ch else 0))
        ok = depth == n
        t = Tree(n, pid=pids)
        cnt = t.traverse(leave=lambda nd, ch: 1 + sum(ch))
        ok = ok and cnt == n
        # a deep comb (spine of 6000 nodes, two tips on every spine node), leave only, from a mid-spine start node: every node left exactly once
        m = 6000
        cp = [-1] + list(range(m - 1))
        for sp in range(m):
            cp += [sp, sp]
        cids, cpids = np.arange(len(cp), dtype=np.int32), np.array(cp, dtype=np.int32)
        seen = {}

        def lv(i, ch):
            i = int(i if not hasattr(i, "id") else i.id)
            seen[i] = seen.get(i, 0) + 1
            return 1 + sum(ch)

        tot = traverse((cids, cpids), leave=lv)
        ok = ok and tot == len(cp) and all(v == 1 for v in seen.values()) and len(seen) == len(cp)
        seen.clear()
        ct = Tree(len(cp), pid=cpids)
        sub = ct.node(3000).traverse(leave=lv)
        ok = ok and sub == (m - 3000) * 3 and all(v == 1 for v in seen.values())
        detail = f"recursion limit {sys.getrecursionlimit()}, chain of {n}: leave-depth={depth}, Tree.traverse count={cnt}; comb of {len(cp)} nodes: total {tot}, sub tree {sub}, every node left once: {all(v == 1 for v in seen.values())}"
        out.append(dict(name="aux.depth_1e5", status="discharged" if ok else "violated", detail=detail, solver_s=0.0,
                        sample=dict(kind="auxiliary_non_solver", detail=detail, wall_s=round(time.time() - t0, 2)),
                        replay=dict(reproduced=True, why=detail)))
    except RecursionError as e:
        out.append(dict(name="aux.depth_1e5", status="violated", detail="RecursionError on a chain of 10^5 nodes", solver_s=0.0,
                        replay=dict(reproduced=True, why=repr(e)[:200])))
    return out


def replay_direct(blob):
    r = d_depth("quick")
    return dict(reproduced=any(x["status"] == "violated" for x in r), results=r)


def _params(n):
    return [dict(n=k, entry=e, cb=cb) for k in range(1, n + 1) for e, cb in
            (("topology", "both"), ("tree", "both"), ("node", "both"), ("topology", "enter"), ("node", "enter"), ("tree", "leave"))]


REACH = {"traverse": ["nontrivial_subtree"], "after_edit": ["topology_changed"]}
HARNESSES = [
    H("traverse", h_traverse, quick=_params(4), thorough=_params(5) + [dict(n=6, entry="topology", cb="both"), dict(n=6, entry="node", cb="both")], functions=FUNCTIONS,
      bounds="every parent table with root 0 on n<=4 (quick) / 5, and 6 for two entry points (thorough) nodes; every start node; callbacks uninterpreted; entry points swc_utils.traverse / Tree.traverse(root=) / Tree.Node.traverse; enter-only, leave-only, both",
      validate=True),
    H("after_edit", h_after_edit, quick=[dict(n=k, how=h) for k in (2, 3, 4) for h in ("setter", "redirect")], thorough=[dict(n=5, how=h) for h in ("setter", "redirect")], functions=FUNCTIONS + ["swcgeom.core.node.Node.pid (setter)", "swcgeom.core.tree_utils.redirect_tree"],
      bounds="every tree with n<=4/5 nodes, traversed, then every re-parenting of one node through its handle / every unsorted re-rooting, then traversed again"),
    Direct("depth", d_depth, functions=FUNCTIONS, bounds="auxiliary concrete runs: one chain of 10^5 nodes and one comb of 18000 nodes, leave-only (not a solver claim)"),
]
