"""C03 - every tree-to-tree operation returns a well-formed tree, leaves its inputs untouched and shares no storage with them.

Shape of the argument: ONE application of each operation to an ARBITRARY well-formed tree (within the node bound) with arbitrary
admissible arguments re-establishes well-formedness (inductive step => pipelines of any length, as long as intermediate trees stay
within the bound), plus every length-2 pipeline over the operation palette run through `Transforms` so that the sequencing code and
the storage layouts that operations hand to each other (views of a transposed matrix, float64 columns, ...) are executed too.
"""
import io

import numpy as np

from symv.api import And, eq, flat
from symv.runner import H
from symv.trees import col, sym_tree, wf
from symv import stubs

FUNCTIONS = ["swcgeom.core.tree_utils.sort_tree", "get_subtree", "to_subtree", "cut_tree", "redirect_tree", "cat_tree", "_sort_tree",
             "swcgeom.core.tree_utils_impl.get_subtree_impl", "to_subtree_impl", "swcgeom.core.swc_utils.subtree.to_sub_topology", "propagate_removal",
             "swcgeom.core.swc_utils.normalizer.sort_nodes_impl", "swcgeom.core.swc.DictSWC.copy",
             "swcgeom.transforms.tree.CutByType", "CutByFurcationOrder", "CutShortTipBranch", "TreeSmoother", "IsometricResampler", "Resampler",
             "swcgeom.transforms.geometry.AffineTransform.__call__/apply", "Translate", "TranslateOrigin", "Scale", "Rotate", "RotateX/Y/Z", "Normalizer", "RadiusReseter",
             "swcgeom.transforms.branch.BranchConvSmoother", "BranchIsometricResampler", "swcgeom.transforms.branch_tree.BranchTreeAssembler",
             "swcgeom.core.branch_tree.BranchTree.from_tree", "swcgeom.transforms.base.Transforms", "SWCLike.to_swc", "Tree.from_swc"]
ASSUMPTIONS = ["input: a well-formed tree rooted at node 0 under ANY numbering (parents need not precede children), extra float column w and int column k",
               "floats as reals", "Normalizer: the column maxima are non-zero (division by zero excluded)",
               "resampler: coordinates on a line (x symbolic in [0,2], y=z=0), spacing in [1,2] so that the node count stays bounded",
               "SWC round trip: concrete coordinates (CPython number formatting cannot be encoded)",
               "storage: an output column may not be the same object as, nor np.shares_memory with, any input column; ndata dicts and comment lists are distinct objects"]
OUTSIDE = ["trees above the node bound", "pipelines longer than 2 are covered by induction over the well-formedness invariant, not executed",
           "Identity / empty Transforms() (return their argument by definition)", "IEEE rounding"]
STUBS = ["scipy.signal.convolve(v, ones(k), 'same') on symbolic columns: sliding-window sum written from the SciPy documentation (the concrete witness run uses real SciPy)"]


# ------------------------------------------------------------------ storage / purity monitor


def _snap(t):
    return {k: list(flat(v)) for k, v in t.ndata.items()}, {k: v for k, v in t.ndata.items()}, t.ndata, t.comments, list(t.comments)


def _same(c, name, t, snap):
    vals, arrs, nd, cm, cmv = snap
    ok_keys = list(t.ndata.keys()) == list(vals.keys())
    c.prove(name + ".keys", ok_keys, f"{list(t.ndata.keys())} vs {list(vals.keys())}")
    if not ok_keys:
        return
    conds = []
    for k, old in vals.items():
        new = list(flat(t.ndata[k]))
        if len(new) != len(old):
            c.prove(name + ".len." + k, False, f"{len(new)} vs {len(old)}")
            return
        conds.extend(eq(x, y) for x, y in zip(new, old))
    c.prove(name + ".values", And(*conds))
    c.prove(name + ".comments", list(t.comments) == cmv)


def _no_sharing(c, name, inputs, out):
    bad = []
    for ti, t in enumerate(inputs):
        if out is t:
            bad.append(f"result is input {ti}")
        if out.ndata is t.ndata:
            bad.append(f"ndata dict of input {ti}")
        if out.comments is t.comments:
            bad.append(f"comments list of input {ti}")
        for k1, v1 in t.ndata.items():
            for k2, v2 in out.ndata.items():
                if v1 is v2 or np.shares_memory(np.asarray(v1), np.asarray(v2)):
                    bad.append(f"out.{k2} shares memory with in{ti}.{k1}")
    c.prove(name + ".no_shared_storage", not bad, "; ".join(bad[:4]))


def _scribble(t, val=-7):
    for k, v in t.ndata.items():
        try:
            v[...] = val
        except (ValueError, TypeError):
            pass
    t.comments.append("scribble")


def _well_formed(c, name, out, sorted_=True, root_pos=0):
    n = out.number_of_nodes()
    ids = [int(v) for v in out.id()]
    pid = [int(v) for v in out.pid()]
    c.prove(name + ".ids_are_positions", ids == list(range(n)), str(ids))
    c.prove(name + ".column_lengths", all(len(v) == n for v in out.ndata.values()), str({k: len(v) for k, v in out.ndata.items()}))
    if root_pos == 0:
        c.prove(name + ".well_formed", wf(pid), str(pid))
    else:
        ok = n > 0 and pid[root_pos] == -1 and sum(1 for p in pid if p == -1) == 1 and all(-1 <= p < n for p in pid)
        if ok:
            for i in range(n):
                j, steps = i, 0
                while pid[j] != -1 and steps <= n:
                    j, steps = pid[j], steps + 1
                ok = ok and steps <= n
        c.prove(name + ".well_formed", ok, str(pid))
    if sorted_:
        c.prove(name + ".parents_precede_children", all(pid[i] < i for i in range(n)), str(pid))
    return n


def _monitor(c, name, inputs, snaps, out, **wfk):
    """Non-destructive C03 obligations for one step: well-formed result, inputs unchanged, no shared storage."""
    n = _well_formed(c, name, out, **wfk)
    for i, (t, s) in enumerate(zip(inputs, snaps)):
        _same(c, f"{name}.input{i}_unchanged", t, s)
    _no_sharing(c, name, inputs, out)
    return n


def _leak_test(c, name, inputs, snaps, out):
    """Destructive: later edits of either side must not leak into the other."""
    _scribble(out)
    for i, (t, s) in enumerate(zip(inputs, snaps)):
        _same(c, f"{name}.input{i}_after_result_edit", t, s)
    osnap = _snap(out)
    for t in inputs:
        _scribble(t, -9)
    _same(c, name + ".result_after_input_edit", out, osnap)


# ------------------------------------------------------------------ inputs


def _tree(c, n, tag="", mode="any", dims=3, coords=None):
    t, a = sym_tree(c, n, mode=mode, extra=("w",), tag=tag, dims=dims, coords=coords)
    a["type"] = [1 + i % 4 for i in range(n)]
    t.ndata["type"] = np.array(a["type"], dtype=np.int32)
    t.ndata["k"] = np.arange(n, dtype=np.int32)
    t.comments.append("c0")
    return t, a


# ------------------------------------------------------------------ operation palette (name -> (factory(c, n) -> callable, sorted_output))


def _op_sort(c, n):
    from swcgeom.core import sort_tree

    return sort_tree


def _op_get_subtree(c, n):
    from swcgeom.core import get_subtree

    k = c.choice("gs", n)
    return lambda t: get_subtree(t, min(k, t.number_of_nodes() - 1))


def _op_to_subtree(c, n):
    from swcgeom.core import to_subtree

    rm = [i for i in range(1, n) if c.choice(f"rm{i}", 2)]
    return lambda t: to_subtree(t, [i for i in rm if i < t.number_of_nodes()])


def _op_cut_tree(c, n):
    from swcgeom.core import cut_tree

    cnt = [0]

    def enter(node, pv):
        cnt[0] += 1
        return (0, bool(c.bool(f"cut{cnt[0]}")) if node.parent() is not None else False)

    return lambda t: cut_tree(t, enter=enter)


def _op_redirect(c, n):
    from swcgeom.core import redirect_tree

    k = c.choice("rr", n)
    return lambda t: redirect_tree(t, min(k, t.number_of_nodes() - 1))


def _op_cut_type(c, n):
    from swcgeom.transforms import CutByType

    return CutByType(c.pick("ty", [1, 2]))


def _op_cut_order(c, n):
    from swcgeom.transforms import CutByFurcationOrder

    return CutByFurcationOrder(c.pick("ord", [1, 2]))


def _op_cut_short(c, n):
    from swcgeom.transforms import CutShortTipBranch

    return CutShortTipBranch(c.real("thre", lo=0))


def _op_translate(c, n):
    from swcgeom.transforms import Translate

    return Translate(c.real("tx"), c.real("ty"), c.real("tz"))


def _op_origin(c, n):
    from swcgeom.transforms import TranslateOrigin

    return TranslateOrigin()


def _op_scale(c, n):
    from swcgeom.transforms import Scale

    return Scale(c.real("sx"), c.real("sy"), c.real("sz"), center=c.pick("sc", ["root", "origin"]))


def _op_rotz(c, n):
    from swcgeom.transforms import RotateX, RotateY, RotateZ

    th, _, _ = c.angle("th")
    return c.pick("rax", [RotateX, RotateY, RotateZ])(th, center=c.pick("rc", ["root", "origin"]))


def _op_rotate(c, n):
    from swcgeom.transforms import Rotate

    th, _, _ = c.angle("th2")
    ax = [c.real("ax"), c.real("ay"), c.real("az")]
    c.assume(ax[0] * ax[0] + ax[1] * ax[1] + ax[2] * ax[2] == 1)
    from symv.trees import mk_col

    return Rotate(mk_col(c, ax), th, center="root")


def _op_normalizer(c, n):
    from swcgeom.transforms import Normalizer

    return Normalizer()


def _op_radius(c, n):
    from swcgeom.transforms import RadiusReseter

    return RadiusReseter(c.real("newr", lo=0, lo_strict=True))


def _op_smooth(c, n):
    from swcgeom.transforms import TreeSmoother

    return TreeSmoother(n_nodes=c.pick("win", [1, 2, 3, 5]))


def _op_resample(c, n):
    from swcgeom.transforms import IsometricResampler

    return IsometricResampler(c.real("d", lo=1, hi=2))


OPS = {
    "sort": (_op_sort, True), "get_subtree": (_op_get_subtree, "order"), "to_subtree": (_op_to_subtree, "order"), "cut_tree": (_op_cut_tree, "order"),
    "redirect": (_op_redirect, True), "cut_type": (_op_cut_type, "order"), "cut_order": (_op_cut_order, "order"), "cut_short": (_op_cut_short, "order"),
    "translate": (_op_translate, None), "origin": (_op_origin, None), "scale": (_op_scale, None), "rot_axis": (_op_rotz, None), "rotate": (_op_rotate, None),
    "normalizer": (_op_normalizer, None), "radius": (_op_radius, None), "smooth": (_op_smooth, None), "resample": (_op_resample, False),
}
# True: documented sorted output.  "order": survivors keep their relative order (sorted output for sorted input).
# None: the numbering of the input is kept.  False: new numbering, only well-formedness is claimed.
LINE_OPS = ("resample",)  # need the 1-d coordinate assumption


def _pre(c, op, a):
    if op == "normalizer":
        from symv.api import vmax

        ms = []
        for k in ("x", "y", "z", "r"):
            m = a[k][0]
            for v in a[k][1:]:
                m = vmax(m, v)
            ms.append(m != 0)
        c.assume(And(*ms))


def h_step(c, op, n):
    """One application of `op` to an arbitrary well-formed tree."""
    line = op in LINE_OPS
    if line:
        t, a = _tree(c, n, dims=1)
        for v in a["x"]:
            c.assume(And(v >= 0, v <= 2))
    else:
        t, a = _tree(c, n)
    _pre(c, op, a)
    with stubs.convolve_stub(c):
        f = OPS[op][0](c, n)
        snap = _snap(t)
        out = f(t)
        c.assume(out.number_of_nodes() > 0, "results in which the root itself is removed are outside the claim")
        in_sorted = all(p < i for i, p in enumerate(a["pid"]))
        srt = OPS[op][1] is True or (OPS[op][1] == "order" and in_sorted)
        n_out = _monitor(c, op, [t], [snap], out, sorted_=srt)
        if OPS[op][1] is None:
            c.prove(op + ".numbering_kept", [int(v) for v in out.pid()] == a["pid"])
        # transform objects are reusable: a second application to the same input gives an equal, equally independent result
        out2 = f(t)
        _well_formed(c, op + ".again", out2, sorted_=srt)
        _no_sharing(c, op + ".again", [t, out], out2)
        if op not in ("cut_tree",):  # (fresh callback verdicts on the second run)
            c.prove(op + ".again.same_topology", [int(v) for v in out2.pid()] == [int(v) for v in out.pid()])
        _leak_test(c, op, [t], [snap], out)
    c.output("n_out", n_out)


def h_redirect_unsorted(c, n):
    from swcgeom.core import redirect_tree

    t, a = _tree(c, n)
    k = c.choice("rr", n)
    snap = _snap(t)
    out = redirect_tree(t, k, sort=False)
    _monitor(c, "redirect_unsorted", [t], [snap], out, sorted_=False, root_pos=k)
    c.prove("redirect_unsorted.root_keeps_position", int(out.pid()[k]) == -1)
    _leak_test(c, "redirect_unsorted", [t], [snap], out)


def h_cat(c, n1, n2):
    from swcgeom.core import cat_tree

    t1, a1 = _tree(c, n1, "a")
    t2, a2 = _tree(c, n2, "b")
    i, j = c.choice("node1", n1), c.choice("node2", n2)
    tr = c.pick("translate", [True, False])
    s1, s2 = _snap(t1), _snap(t2)
    out = cat_tree(t1, t2, i, j, translate=tr)
    _monitor(c, "cat", [t1, t2], [s1, s2], out, sorted_=True)
    _leak_test(c, "cat", [t1, t2], [s1, s2], out)
    # the same tree on both sides
    t3, a3 = _tree(c, n1, "c")
    s3 = _snap(t3)
    out = cat_tree(t3, t3, i, min(j, n1 - 1), translate=tr)
    _monitor(c, "cat_self", [t3], [s3], out, sorted_=True)
    _leak_test(c, "cat_self", [t3], [s3], out)


def h_pipeline(c, op1, op2, n):
    """Transforms(op1, op2) on an arbitrary tree: every intermediate and the final tree are well-formed and independent of the input."""
    from swcgeom.transforms import Transforms

    line = op1 in LINE_OPS or op2 in LINE_OPS
    if line:
        t, a = _tree(c, n, dims=1, mode="sorted")
        for v in a["x"]:
            c.assume(And(v >= 0, v <= 2))
    else:
        t, a = _tree(c, n, mode="sorted")
    _pre(c, op1, a)
    with stubs.convolve_stub(c):
        f1 = OPS[op1][0](c, n)
        f2 = OPS[op2][0](c, n)
        mids = []

        from symv.engine import PathAbort

        def _nonempty(y):
            if y.number_of_nodes() == 0:
                raise PathAbort()  # a step that removes the root (empty result) is outside the claim, as in `step`
            return y

        class Tap:
            def __call__(self, x):
                mids.append(x)
                return _nonempty(f1(x))

        class Tap2:
            def __call__(self, x):
                mids.append(x)
                return _nonempty(f2(x))

        snap = _snap(t)
        pipe = Transforms(Tap(), Tap2())
        if op2 == "normalizer":
            # the precondition of the second step is about the intermediate tree
            mid = _nonempty(f1(t))
            for k in ("x", "y", "z", "r"):
                from symv.api import vmax

                vs = list(flat(mid.ndata[k]))
                if not vs:
                    return
                m = vs[0]
                for v in vs[1:]:
                    m = vmax(m, v)
                c.assume(m != 0)
        out = pipe(t)
        c.prove("pipeline.sequencing", len(mids) == 2 and mids[0] is t)
        mid = mids[1]
        _well_formed(c, "pipeline.mid", mid, sorted_=True)
        _no_sharing(c, "pipeline.mid", [t], mid)
        msnap = _snap(mid)
        _well_formed(c, "pipeline.out", out, sorted_=True)
        _no_sharing(c, "pipeline.out_vs_mid", [mid], out)
        _same(c, "pipeline.mid_unchanged", mid, msnap)
        _monitor(c, "pipeline", [t], [snap], out, sorted_=True)
        _leak_test(c, "pipeline", [t, mid], [snap, msnap], out)
    c.output("n_out", out.number_of_nodes())


def h_swc_round_trip(c, n):
    """to_swc -> from_swc on concrete coordinates (number formatting is CPython's): result well-formed, independent of the input."""
    from swcgeom.core import Tree
    from symv.trees import topology

    pid = topology(c, n, "any")
    vals = [0.25 * i - 1 for i in range(n)]
    t = Tree(n, pid=np.array(pid, dtype=np.int32), type=np.array([1 + i % 4 for i in range(n)], dtype=np.int32),
             x=np.array(vals, dtype=np.float32), y=np.array(vals[::-1], dtype=np.float32), z=np.zeros(n, dtype=np.float32), r=np.ones(n, dtype=np.float32))
    t.comments.append("c0")
    snap = _snap(t)
    text = t.to_swc()
    out = Tree.from_swc(io.StringIO(text))
    c.prove("swc.count", out.number_of_nodes() == n)
    _monitor(c, "swc", [t], [snap], out, sorted_=False)
    c.prove("swc.parents", [int(v) for v in out.pid()] == pid)
    _leak_test(c, "swc", [t], [snap], out)


STEP_OPS = list(OPS)
PIPE_QUICK = [("cut_short", "redirect"), ("redirect", "cut_type"), ("scale", "to_subtree"), ("rot_axis", "smooth"), ("smooth", "get_subtree"), ("normalizer", "sort"),
              ("to_subtree", "translate"), ("get_subtree", "radius"), ("resample", "cut_order"), ("origin", "resample"), ("radius", "normalizer"), ("translate", "rot_axis"),
              ("cut_tree", "smooth"), ("sort", "cut_tree"), ("cut_order", "scale"), ("cut_type", "origin")]
PIPE_ALL = [(a, b) for a in OPS for b in OPS if a != "rotate" and b != "rotate"]

HARNESSES = [
    H("step", h_step, opts=dict(merge_minmax=True), quick=[dict(op=o, n=k) for o in STEP_OPS for k in ((1, 3) if o not in ("rotate",) else (2,))] + [dict(op="to_subtree", n=4), dict(op="cut_type", n=4)], thorough=[dict(op=o, n=4) for o in STEP_OPS if o not in ("rotate", "resample", "normalizer")] + [dict(op="rotate", n=3), dict(op="resample", n=3), dict(op="normalizer", n=3)],
      functions=FUNCTIONS, bounds="each of the 17 operations applied once (and a second time) to every numbering of every tree with n in {1,3} (quick) / 4 (thorough) nodes; arguments: every node id / removal set / callback verdict pattern / order / type, real thresholds, factors, offsets, any angle and unit axis, windows {1,2,3,5}, spacing in [1,2]"),
    H("redirect_unsorted", h_redirect_unsorted, quick=[dict(n=k) for k in (1, 2, 3, 4)], thorough=[dict(n=5)], functions=FUNCTIONS, bounds="n<=4/5, every new root, sort=False"),
    H("cat", h_cat, quick=[dict(n1=1, n2=1), dict(n1=2, n2=2), dict(n1=3, n2=2)], thorough=[dict(n1=3, n2=3)], functions=FUNCTIONS, bounds="pairs up to (3,2) quick / (3,3) thorough, every junction pair, both translate modes, also a tree concatenated onto itself"),
    H("pipeline", h_pipeline, opts=dict(merge_minmax=True), quick=[dict(op1=a, op2=b, n=3) for a, b in PIPE_QUICK], thorough=[dict(op1=a, op2=b, n=3) for a, b in PIPE_QUICK + [(b, a) for a, b in PIPE_QUICK]], functions=FUNCTIONS,
      bounds="Transforms(op1, op2): 16 pairs covering every operation as first and as second step (quick) / those and their 16 reversals (thorough) on every sorted tree with 3 nodes"),
    H("swc_round_trip", h_swc_round_trip, quick=[dict(n=k) for k in (1, 2, 3, 4)], thorough=[dict(n=5)], functions=FUNCTIONS, bounds="every numbering of every tree with n<=4/5 nodes, concrete coordinates"),
]
