"""E2: Python `re` pattern -> z3 regular expression (DESIGN.md section 2.2).

The pattern is parsed with CPython's own `re._parser`, so the translation follows
the syntax tree the `re` module itself compiles.  Alphabet: ASCII 1..126 (plus the
characters named explicitly in a pattern).  Anchors are handled by the caller:
`language(pattern)` returns the language of whole strings s for which
`re.compile(pattern).search(s)` succeeds when the pattern has the shape `^...$`
(Python's `$` also matches before a trailing newline).
"""
from __future__ import annotations

import re
import re._constants as C
import re._parser as P

import z3

LO, HI = 1, 126
_SPACE = " \t\n\r\x0b\x0c"  # ASCII members of \s (\x1c-\x1f are also \s for str patterns)
_SPACE_FULL = _SPACE + "\x1c\x1d\x1e\x1f"


def _ch(c: int):
    return z3.Re(z3.StringVal(chr(c)))


def _range(a: int, b: int):
    a, b = max(a, LO), min(b, HI)
    if a > b:
        return None
    if a == b:
        return _ch(a)
    return z3.Range(chr(a), chr(b))


def _union(parts):
    parts = [p for p in parts if p is not None]
    if not parts:
        return z3.Empty(z3.ReSort(z3.StringSort()))
    if len(parts) == 1:
        return parts[0]
    return z3.Union(*parts)


def charset(chars: set):
    """Regex for one character out of a set of code points (compressed into ranges)."""
    cs = sorted(c for c in chars if LO <= c <= HI)
    parts, i = [], 0
    while i < len(cs):
        j = i
        while j + 1 < len(cs) and cs[j + 1] == cs[j] + 1:
            j += 1
        parts.append(_range(cs[i], cs[j]))
        i = j + 1
    return _union(parts)


def _category(cat) -> set:
    name = str(cat)
    full = set(range(LO, HI + 1))
    digit = set(range(48, 58))
    space = {ord(c) for c in _SPACE_FULL}
    word = digit | set(range(65, 91)) | set(range(97, 123)) | {95}
    table = {"CATEGORY_DIGIT": digit, "CATEGORY_NOT_DIGIT": full - digit, "CATEGORY_SPACE": space, "CATEGORY_NOT_SPACE": full - space,
             "CATEGORY_WORD": word, "CATEGORY_NOT_WORD": full - word}
    if name not in table:
        raise NotImplementedError(name)
    return table[name]


def _in_set(items) -> set:
    neg = False
    out = set()
    for op, av in items:
        if op is C.NEGATE:
            neg = True
        elif op is C.LITERAL:
            out.add(av)
        elif op is C.RANGE:
            out |= set(range(av[0], av[1] + 1))
        elif op is C.CATEGORY:
            out |= _category(av)
        else:
            raise NotImplementedError(str(op))
    if neg:
        out = set(range(LO, HI + 1)) - out
    return out


class Translation:
    def __init__(self):
        self.groups = {}  # group number -> z3 regex of the group's own language

    def seq(self, items):
        parts = [self.node(op, av) for op, av in items]
        parts = [p for p in parts if p is not None]
        if not parts:
            return z3.Re(z3.StringVal(""))
        if len(parts) == 1:
            return parts[0]
        return z3.Concat(*parts)

    def node(self, op, av):
        if op is C.LITERAL:
            return _ch(av)
        if op is C.NOT_LITERAL:
            return charset(set(range(LO, HI + 1)) - {av})
        if op is C.ANY:
            return charset(set(range(LO, HI + 1)) - {10})
        if op is C.IN:
            return charset(_in_set(av))
        if op is C.BRANCH:
            return _union([self.seq(b) for b in av[1]])
        if op is C.SUBPATTERN:
            group, add_flags, del_flags, sub = av
            r = self.seq(sub)
            if group is not None:
                self.groups[group] = r
            return r
        if op in (C.MAX_REPEAT, C.MIN_REPEAT):
            lo, hi, sub = av
            r = self.seq(sub)
            if hi is C.MAXREPEAT:
                if lo == 0:
                    return z3.Star(r)
                if lo == 1:
                    return z3.Plus(r)
                return z3.Concat(*([r] * lo), z3.Star(r))
            return z3.Loop(r, lo, hi)
        if op is C.AT:
            raise NotImplementedError("anchor inside the pattern body")
        raise NotImplementedError(str(op))


def language(pattern: str):
    """(z3 regex of the strings on which `^body$`.search succeeds, Translation)."""
    tree = list(P.parse(pattern))
    anchored_l = bool(tree) and tree[0] == (C.AT, C.AT_BEGINNING)
    anchored_r = bool(tree) and tree[-1] == (C.AT, C.AT_END)
    tr = Translation()
    body = tr.seq(tree[(1 if anchored_l else 0):(len(tree) - 1 if anchored_r else len(tree))])
    anything = z3.Star(_range(LO, HI))
    if not anchored_l:
        body = z3.Concat(anything, body)  # search() may start anywhere
    if anchored_r:
        full = z3.Union(body, z3.Concat(body, _ch(10)))  # `$` matches at the end and before a final newline
    else:
        full = z3.Concat(body, anything)
    return full, tr


def prefix_language(pattern: str):
    """z3 regex R with: `re.match(pattern, s)` succeeds iff some prefix of s is in R
    (pattern with a leading ^ only or no anchors)."""
    tree = list(P.parse(pattern))
    if tree and tree[0] == (C.AT, C.AT_BEGINNING):
        tree = tree[1:]
    tr = Translation()
    return tr.seq(tree), tr


def fragment(pattern: str):
    """z3 regex of an anchor-free pattern fragment (a spec language written as a Python regex)."""
    tr = Translation()
    return tr.seq(list(P.parse(pattern))), tr


def ascii_string(s):
    """Constraint: every character of the z3 string s is in the modelled alphabet."""
    return z3.InRe(s, z3.Star(_range(LO, HI)))


def witness_str(model, s) -> str:
    v = model.eval(s, model_completion=True)
    return v.as_string() if hasattr(v, "as_string") else str(v)


def decode(zs: str) -> str:
    """z3 string literal (with \\u{..} escapes) -> python str."""
    return re.sub(r"\\u\{([0-9a-fA-F]+)\}", lambda m: chr(int(m.group(1), 16)), zs)
