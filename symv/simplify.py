"""E1: sympy-proposed, z3-certified term simplification and sqrt resolution (DESIGN.md 3.2).

sympy is untrusted: every rewritten term is used only after z3 has proved, under the current path
condition, that it equals the original.  The solver remains the deciding step."""
from __future__ import annotations

import fractions

import z3

_SYM_CACHE: dict = {}


class Unsupported(Exception):
    pass


def term_size(t, cap=100000) -> int:
    seen, stack, n = set(), [t], 0
    while stack and n < cap:
        e = stack.pop()
        i = e.get_id()
        if i in seen:
            continue
        seen.add(i)
        n += 1
        stack.extend(e.children())
    return n


def to_sympy(t, syms: dict):
    import sympy as sp

    memo = {}

    def go(e):
        i = e.get_id()
        if i in memo:
            return memo[i]
        if z3.is_rational_value(e):
            r = sp.Rational(e.numerator_as_long(), e.denominator_as_long())
        elif z3.is_int_value(e):
            r = sp.Integer(e.as_long())
        elif z3.is_const(e) and e.decl().kind() == z3.Z3_OP_UNINTERPRETED:
            name = e.decl().name()
            if name not in syms:
                syms[name] = (sp.Symbol("v" + str(len(syms)), real=True), e)
            r = syms[name][0]
        elif z3.is_app(e):
            k = e.decl().kind()
            ch = [go(c) for c in e.children()]
            if k == z3.Z3_OP_ADD:
                r = sp.Add(*ch)
            elif k == z3.Z3_OP_MUL:
                r = sp.Mul(*ch)
            elif k == z3.Z3_OP_SUB:
                r = ch[0] - sp.Add(*ch[1:]) if len(ch) > 1 else -ch[0]
            elif k == z3.Z3_OP_UMINUS:
                r = -ch[0]
            elif k == z3.Z3_OP_DIV:
                r = ch[0] / ch[1]
            elif k == z3.Z3_OP_TO_REAL:
                r = ch[0]
            elif k == z3.Z3_OP_POWER and z3.is_int_value(e.children()[1]) or (k == z3.Z3_OP_POWER and z3.is_rational_value(e.children()[1]) and e.children()[1].denominator_as_long() == 1):
                r = ch[0] ** ch[1]
            else:
                raise Unsupported(str(e.decl()))
        else:
            raise Unsupported(str(e))
        memo[i] = r
        return r

    return go(t)


def from_sympy(ex, syms: dict):
    import sympy as sp

    back = {s: z for (s, z) in syms.values()}

    def go(e):
        if e.is_Rational:
            return z3.Q(int(e.p), int(e.q))
        if e.is_Symbol:
            z = back[e]
            return z3.ToReal(z) if z.sort() == z3.IntSort() else z
        if e.is_Add:
            args = [go(a) for a in e.args]
            r = args[0]
            for a in args[1:]:
                r = r + a
            return r
        if e.is_Mul:
            num, den = [], []
            for a in e.args:
                if a.is_Pow and a.exp.is_Integer and a.exp < 0:
                    den.append(go(a.base ** (-a.exp)))
                elif a.is_Rational and a.q != 1:
                    num.append(z3.Q(int(a.p), int(a.q)))
                else:
                    num.append(go(a))
            r = num[0] if num else z3.RealVal(1)
            for a in num[1:]:
                r = r * a
            for d in den:
                r = r / d
            return r
        if e.is_Pow and e.exp.is_Integer:
            n = int(e.exp)
            b = go(e.base)
            if n > 0:
                r = b
                for _ in range(n - 1):
                    r = r * b
                return r
            if n < 0:
                r = b
                for _ in range(-n - 1):
                    r = r * b
                return z3.RealVal(1) / r
            return z3.RealVal(1)
        raise Unsupported(str(e))

    return go(ex)


def propose_sqrt(e):
    """Returns a z3 term g with (claimed, uncertified) e == g*g, or None."""
    import sympy as sp

    syms = {}
    try:
        ex = sp.cancel(sp.together(to_sympy(e, syms)))
        num, den = sp.fraction(ex)
        g = sp.Integer(1)
        for part, inv in ((num, False), (den, True)):
            const, factors = sp.factor_list(part)
            const = sp.Rational(const)
            if const < 0:
                return None
            rp, rq = sp.integer_nthroot(int(const.p), 2), sp.integer_nthroot(int(const.q), 2)
            if not (rp[1] and rq[1]):
                return None
            cg = sp.Rational(rp[0], rq[0])
            fg = sp.Integer(1)
            for f, m in factors:
                if m % 2:
                    return None
                fg = fg * f ** (m // 2)
            g = g / (cg * fg) if inv else g * cg * fg
        return from_sympy(sp.cancel(g), syms)
    except (Unsupported, Exception):  # noqa: BLE001 - sympy is only a proposer
        return None


def propose_simplified(t):
    """Returns a (claimed) equal but smaller z3 term, or None."""
    import sympy as sp

    syms = {}
    try:
        ex = to_sympy(t, syms)
        best = None
        for cand in (sp.cancel(sp.together(ex)), ):
            try:
                f = sp.factor(cand)
            except Exception:  # noqa: BLE001
                f = cand
            for c in (cand, f):
                z = from_sympy(c, syms)
                if best is None or term_size(z) < term_size(best):
                    best = z
        return best
    except (Unsupported, Exception):  # noqa: BLE001
        return None
