"""Symbolic input trees and small reference helpers shared by the harnesses."""
from __future__ import annotations

import numpy as np

from .engine import PathAbort


def topology(c, n, mode="sorted", prefix="p"):
    """Parent table of a tree rooted at node 0 (pid[0] = -1), forked by the engine.

    mode 'sorted': pid[i] < i.   mode 'any': any numbering with the root at 0.
    """
    pid = [-1]
    for i in range(1, n):
        if mode == "sorted":
            pid.append(c.choice(f"{prefix}{i}", i))
        else:
            pid.append(c.choice(f"{prefix}{i}", n))
    if mode != "sorted":
        for i in range(1, n):
            seen, j = set(), i
            while j != 0:
                if j in seen or j == -1 or pid[j] == j:
                    raise PathAbort()
                seen.add(j)
                j = pid[j]
    return pid


def reals(c, name, n, **k):
    return [c.real(f"{name}{i}", **k) for i in range(n)]


def sym_tree(c, n, mode="sorted", dims=3, rpos=True, types=None, extra=(), tag="", coords=None):
    """A Tree whose x,y,z,r (and extra float columns) are symbolic reals.
    Returns (tree, attrs) with attrs = dict(pid=[...], x=[...], ...)."""
    from swcgeom.core import Tree

    pid = topology(c, n, mode, prefix=tag + "p")
    a = dict(pid=pid)
    for k in "xyz"[:dims]:
        a[k] = reals(c, tag + k, n)
    for k in "xyz"[dims:]:
        a[k] = [0.0] * n
    if coords is not None:
        a.update(coords)
    a["r"] = reals(c, tag + "r", n, lo=0, lo_strict=True) if rpos else reals(c, tag + "r", n)
    if types is None:
        a["type"] = [1] + [3] * (n - 1)
    else:
        a["type"] = [c.pick(f"{tag}t{i}", types) for i in range(n)]
    kw = {}
    for e in extra:
        a[e] = reals(c, tag + e, n)
        kw[e] = mk_col(c, a[e])
    t = Tree(n, pid=np.array(pid, dtype=np.int32), type=np.array(a["type"], dtype=np.int32),
             x=mk_col(c, a["x"]), y=mk_col(c, a["y"]), z=mk_col(c, a["z"]), r=mk_col(c, a["r"]), **kw)
    return t, a


def mk_col(c, vals):
    """float32 column: SArr under the symbolic context, float32 ndarray concretely."""
    if c.mode == "sym":
        from .symnp import SArr

        return SArr(list(vals), np.float32)
    return np.array([float(v) for v in vals], dtype=np.float32)


def children_of(pid):
    ch = {i: [] for i in range(len(pid))}
    for i, p in enumerate(pid):
        if p >= 0:
            ch[p].append(i)
    return ch


def descendants(pid, k):
    ch = children_of(pid)
    out, st = [], [k]
    while st:
        i = st.pop()
        out.append(i)
        st.extend(ch[i])
    return sorted(out)


def col(t, k):
    """Column of a tree as a python list of scalars (Sym or numbers)."""
    from .api import flat

    return flat(t.get_ndata(k))


def wf(pid):
    """Well-formedness of a parent table with ids = positions: root 0 only, all reach it."""
    pid = [int(p) for p in pid]
    n = len(pid)
    if n == 0 or pid[0] != -1 or any(p == -1 for p in pid[1:]):
        return False
    if any(not (0 <= p < n) for p in pid[1:]):
        return False
    for i in range(n):
        j, k = i, 0
        while j != 0:
            j = pid[j]
            k += 1
            if k > n:
                return False
    return True
