"""E1: path-forking symbolic execution of real Python/numpy code over z3.

One *path* = one execution of a harness function with symbolic scalars; every
`bool()` of a symbolic condition asks the explorer, which replays the recorded
decision prefix and forks where both outcomes are feasible (DFS with
re-execution).  See DESIGN.md section 2.1.
"""
from __future__ import annotations

import fractions
import math
import time
from dataclasses import dataclass, field
from typing import Any, Callable, Optional

import numpy as _np
import z3

# --------------------------------------------------------------------------- exceptions


class PathAbort(BaseException):
    """The current path is infeasible / pruned (assumption failed)."""


class OutsideClaim(BaseException):
    """The path left the modelled fragment (division by zero, Monte-Carlo, ...)."""


class HarnessError(Exception):
    """The harness or the encoding is broken (exit code 3)."""


class Inconclusive(BaseException):
    """A cap was hit; the result of this harness is inconclusive (exit code 2)."""


_CTX: Optional["SymCtx"] = None


def ctx() -> "SymCtx":
    if _CTX is None:
        raise HarnessError("symbolic value used outside of an exploration")
    return _CTX


# --------------------------------------------------------------------------- constants


def _to_fraction(v: float) -> fractions.Fraction:
    """Lift a float literal to the short rational it denotes (DESIGN 3.1)."""
    if v != v or v in (math.inf, -math.inf):
        raise OutsideClaim(f"non-finite constant {v!r}")
    exact = fractions.Fraction(v)
    if exact.denominator <= 10**6:
        return exact
    short = exact.limit_denominator(10**6)
    if short != 0 and abs(float(short) - v) <= abs(v) * 2.3e-16:
        return short
    # float32 literals such as np.float32(0.1)
    short = exact.limit_denominator(10**4)
    if short != 0 and abs(float(short) - v) <= abs(v) * 1.2e-7 and float(_np.float32(float(short))) == v:
        return short
    return exact


def realval(v) -> z3.ArithRef:
    if isinstance(v, bool):
        return z3.RealVal(int(v))
    if isinstance(v, (int, _np.integer)):
        return z3.RealVal(int(v))
    if isinstance(v, fractions.Fraction):
        return z3.Q(v.numerator, v.denominator)
    if isinstance(v, (float, _np.floating)):
        f = _to_fraction(float(v))
        return z3.Q(f.numerator, f.denominator)
    raise TypeError(f"cannot lift {type(v)} to a real")


# --------------------------------------------------------------------------- symbolic scalars


class Sym:
    __slots__ = ("t", "nn")


    def __repr__(self):
        s = self.t.sexpr() if hasattr(self.t, "sexpr") else str(self.t)
        return f"<{type(self).__name__} {s[:80]}>"


def _is_nd(o) -> bool:
    return isinstance(o, _np.ndarray)


class SymBool(Sym):
    __slots__ = ()

    def __init__(self, t):
        self.t = t
        self.nn = False

    def __bool__(self):
        return ctx().branch(self.t)

    def __and__(self, o):
        if _is_nd(o):
            return NotImplemented
        return SymBool(z3.And(self.t, as_bool_term(o)))

    __rand__ = __and__

    def __or__(self, o):
        if _is_nd(o):
            return NotImplemented
        return SymBool(z3.Or(self.t, as_bool_term(o)))

    __ror__ = __or__

    def __xor__(self, o):
        if _is_nd(o):
            return NotImplemented
        return SymBool(z3.Xor(self.t, as_bool_term(o)))

    __rxor__ = __xor__

    def __invert__(self):
        return SymBool(z3.Not(self.t))

    def __eq__(self, o):
        if _is_nd(o):
            return NotImplemented
        return SymBool(self.t == as_bool_term(o))

    def __ne__(self, o):
        if _is_nd(o):
            return NotImplemented
        return SymBool(self.t != as_bool_term(o))

    __hash__ = None

    def item(self):
        return self

    def ite(self, a, b):
        """z3 If over numbers."""
        ta, tb = as_term(a), as_term(b)
        if ta.sort() != tb.sort():
            ta, tb = to_real_term(ta), to_real_term(tb)
        r = z3.If(self.t, ta, tb)
        return SymInt(r) if r.sort() == z3.IntSort() else SymReal(r)


def as_bool_term(o):
    if isinstance(o, SymBool):
        return o.t
    if isinstance(o, (bool, _np.bool_)):
        return z3.BoolVal(bool(o))
    raise TypeError(f"not a boolean: {type(o)}")


def as_term(o):
    if isinstance(o, Sym):
        return o.t
    if isinstance(o, (bool, _np.bool_)):
        return z3.IntVal(int(o))
    if isinstance(o, (int, _np.integer)):
        return z3.IntVal(int(o))
    if isinstance(o, (float, _np.floating, fractions.Fraction)):
        return realval(o)
    raise TypeError(f"cannot use {type(o)} in symbolic arithmetic")


def to_real_term(t):
    return z3.ToReal(t) if t.sort() == z3.IntSort() else t


def _num_ok(o) -> bool:
    return isinstance(o, (Sym, int, float, bool, _np.integer, _np.floating, _np.bool_, fractions.Fraction)) and not isinstance(o, SymBool)


def wrap(t):
    if z3.is_bool(t):
        return SymBool(t)
    if t.sort() == z3.IntSort():
        return SymInt(t)
    return SymReal(t)


def _binop(a, b, fn, force_real=False):
    ta, tb = as_term(a), as_term(b)
    if force_real or ta.sort() != tb.sort():
        ta, tb = to_real_term(ta), to_real_term(tb)
    return wrap(fn(ta, tb))


def _is_inf(o) -> bool:
    return isinstance(o, (float, _np.floating)) and o in (math.inf, -math.inf)


def _nn(o) -> bool:
    if isinstance(o, SymNum):
        return o.nn
    try:
        return o >= 0
    except Exception:  # noqa: BLE001
        return False


def _mark(r, nn):
    if nn and isinstance(r, SymNum):
        r.nn = True
    return r


class SymNum(Sym):
    __slots__ = ()

    def __init__(self, t, nn=False):
        self.t = t
        self.nn = nn  # known non-negative by construction (sums of squares, roots, abs)

    # arithmetic -----------------------------------------------------------
    def __add__(self, o):
        if not _num_ok(o):
            return NotImplemented
        return _mark(_binop(self, o, lambda x, y: x + y), self.nn and _nn(o))

    def __radd__(self, o):
        if not _num_ok(o):
            return NotImplemented
        return _mark(_binop(o, self, lambda x, y: x + y), self.nn and _nn(o))

    def __sub__(self, o):
        if not _num_ok(o):
            return NotImplemented
        return _binop(self, o, lambda x, y: x - y)

    def __rsub__(self, o):
        if not _num_ok(o):
            return NotImplemented
        return _binop(o, self, lambda x, y: x - y)

    def __mul__(self, o):
        if not _num_ok(o):
            return NotImplemented
        if isinstance(o, (int, float)) and not isinstance(o, bool):
            if o == 1:
                return self
        same = isinstance(o, SymNum) and (o is self or o.t.eq(self.t))
        return _mark(_binop(self, o, lambda x, y: x * y), same or (self.nn and _nn(o)))

    def __rmul__(self, o):
        if not _num_ok(o):
            return NotImplemented
        if isinstance(o, (int, float)) and not isinstance(o, bool):
            if o == 1:
                return self
        return _mark(_binop(o, self, lambda x, y: x * y), self.nn and _nn(o))

    def __truediv__(self, o):
        if not _num_ok(o):
            return NotImplemented
        return _div(self, o)

    def __rtruediv__(self, o):
        if not _num_ok(o):
            return NotImplemented
        return _div(o, self)

    def __neg__(self):
        return wrap(-self.t)

    def __pos__(self):
        return self

    def __abs__(self):
        if self.nn:
            return self
        return _mark(wrap(z3.If(self.t >= 0, self.t, -self.t)), True)

    def __pow__(self, o):
        if isinstance(o, (float, _np.floating)) and float(o) == int(o):
            o = int(o)
        if isinstance(o, (int, _np.integer)) and not isinstance(o, bool):
            o = int(o)
            if o == 0:
                return wrap(as_term(1) if isinstance(self, SymInt) else realval(1))
            if o > 0:
                r = self.t
                for _ in range(o - 1):
                    r = r * self.t
                return _mark(wrap(r), o % 2 == 0 or self.nn)
            return _div(1, self ** (-o))
        if isinstance(o, (float, _np.floating)) and float(o) == 0.5:
            return self.sqrt()
        raise OutsideClaim(f"power with exponent {o!r} is transcendental")

    def __rpow__(self, o):
        raise OutsideClaim("symbolic exponent")

    # comparisons ----------------------------------------------------------
    # (a finite symbolic number against +-inf, which swcgeom uses as a mask value, is decided concretely)
    def __lt__(self, o):
        if not _num_ok(o):
            return NotImplemented
        if _is_inf(o):
            return o > 0
        return _binop(self, o, lambda x, y: x < y)

    def __le__(self, o):
        if not _num_ok(o):
            return NotImplemented
        if _is_inf(o):
            return o > 0
        return _binop(self, o, lambda x, y: x <= y)

    def __gt__(self, o):
        if not _num_ok(o):
            return NotImplemented
        if _is_inf(o):
            return o < 0
        return _binop(self, o, lambda x, y: x > y)

    def __ge__(self, o):
        if not _num_ok(o):
            return NotImplemented
        if _is_inf(o):
            return o < 0
        return _binop(self, o, lambda x, y: x >= y)

    def __eq__(self, o):
        if not _num_ok(o):
            return NotImplemented
        if _is_inf(o):
            return False
        return _binop(self, o, lambda x, y: x == y)

    def __ne__(self, o):
        if not _num_ok(o):
            return NotImplemented
        if _is_inf(o):
            return True
        return _binop(self, o, lambda x, y: x != y)

    # numpy protocol for object arrays -------------------------------------
    def item(self):
        return self

    def conjugate(self):
        return self

    def copy(self):
        return self

    def __deepcopy__(self, memo):
        return self

    def __copy__(self):
        return self

    def astype(self, dtype):
        return self


def _div(a, b):
    tb = as_term(b)
    zero = tb == 0
    if ctx().branch(zero):
        raise OutsideClaim("division by zero")
    return _binop(a, b, lambda x, y: x / y, force_real=True)


class SymReal(SymNum):
    __slots__ = ()

    def __float__(self):
        raise HarnessError("float() forced on a symbolic real (would sample it)")

    def __int__(self):
        # int(float) truncates toward zero; the integer is concretised by forking like any other integer
        t = z3.simplify(self.t)
        if z3.is_app_of(t, z3.Z3_OP_TO_REAL):
            return ctx().concretize(SymInt(t.arg(0)))
        return ctx().concretize(SymInt(z3.If(t >= 0, z3.ToInt(t), -z3.ToInt(-t))))

    def __round__(self, n=None):
        raise HarnessError("round() on a symbolic real")

    def __hash__(self):
        # opt-in: one bucket for every symbolic real, so that dict / set look-ups among symbolic keys are decided by ==,
        # i.e. by the solver (forks). Only sound when the keys compared are all symbolic (stated by the harness that enables it).
        if _CTX is not None and getattr(_CTX.opts, "sym_hash", False):
            return 0
        raise TypeError("unhashable type: symbolic real")

    def sqrt(self):
        return ctx().sqrt(self)

    def floor(self):
        return SymInt(z3.ToInt(self.t))

    def ceil(self):
        return SymInt(-z3.ToInt(-self.t))

    def __floor__(self):
        return self.floor()

    def __ceil__(self):
        return self.ceil()

    def __floordiv__(self, o):
        q = _div(self, o)
        return SymReal(z3.ToReal(z3.ToInt(q.t)))

    def cos(self):
        return ctx().trig(self)[0]

    def sin(self):
        return ctx().trig(self)[1]

    def arccos(self):
        return ctx().arccos(self)

    def degrees(self):
        return self * 180 / ctx().pi()

    def rad2deg(self):
        return self.degrees()

    def __format__(self, spec):
        # formatting of symbolic reals only occurs in repr/log strings (stubbed, DESIGN 3.4)
        ctx().note("formatted a symbolic real (log/repr string)")
        return "<sym>"


class SymInt(SymNum):
    __slots__ = ()

    def __index__(self):
        return ctx().concretize(self)

    def __int__(self):
        return ctx().concretize(self)

    def __float__(self):
        return float(ctx().concretize(self))

    def __hash__(self):
        return hash(ctx().concretize(self))

    def __floordiv__(self, o):
        if isinstance(o, (SymInt, int, _np.integer)):
            to = as_term(o)
            if ctx().branch(to == 0):
                raise ZeroDivisionError("integer division or modulo by zero")
            # python floor division; z3 int div is euclidean: equal for positive divisor
            return SymInt(z3.If(to > 0, self.t / to, -((-self.t) / (-to)) if False else (self.t / to) + z3.If(z3.And(self.t % to != 0, to < 0), 0, 0)))
        return NotImplemented

    def __mod__(self, o):
        if isinstance(o, (int, _np.integer)) and int(o) > 0:
            return SymInt(self.t % int(o))
        return NotImplemented

    def sqrt(self):
        return SymReal(z3.ToReal(self.t)).sqrt()

    def __format__(self, spec):
        return format(ctx().concretize(self), spec)

    def __str__(self):
        return str(ctx().concretize(self))


def _as_real_sym(x):
    if isinstance(x, SymInt):
        return SymReal(z3.ToReal(x.t))
    return x


def sym_min(a, b):
    """min without forking."""
    return (a <= b).ite(a, b) if isinstance(a, Sym) or isinstance(b, Sym) else min(a, b)


def is_sym(o) -> bool:
    return isinstance(o, Sym)


# --------------------------------------------------------------------------- context


@dataclass
class Decision:
    kind: str  # 'b' branch, 'c' concretise
    payload: Any
    choice: bool
    forked: bool  # the other outcome was feasible (or unknown) when first taken


@dataclass
class Obligation:
    name: str
    status: str  # discharged | violated | unknown | concrete_false
    detail: str = ""
    model: Optional[dict] = None
    solver_s: float = 0.0


@dataclass
class Options:
    branch_timeout_ms: int = 5000
    oblig_timeout_ms: int = 60000
    max_decisions: int = 4000
    max_concretize: int = 64
    path_timeout_s: int = 300  # wall-clock cap per path (a concrete non-terminating loop ends as inconclusive)
    lazy_nonlinear: bool = True
    hashcons_timeout_ms: int = 1000  # budget of one "are these two radicands equal on this path" query
    crosscheck_mod: int = 0  # > 0: every obligation whose hash is 0 modulo this number is re-decided by cvc5 (thorough tier)
    crosscheck_seed: int = 0
    sym_hash: bool = False  # symbolic reals hash to one bucket (dict look-ups among symbolic keys fork on ==)
    merge_clip: bool = False  # np.clip values as if-then-else terms instead of forking
    merge_minmax: bool = False  # np.min/np.max values as if-then-else terms instead of forking on the order of the elements


class SymCtx:
    mode = "sym"

    def __init__(self, prefix: list[Decision], opts: Options, params: dict):
        self.prefix = prefix
        self.opts = opts
        self.params = params
        self.solver = z3.Solver()
        self.solver.set("timeout", opts.branch_timeout_ms)
        self.trace: list[Decision] = []
        self.inputs: dict[str, Any] = {}  # name -> z3 const
        self.obligations: list[Obligation] = []
        self.outputs: dict[str, Any] = {}
        self.notes: list[str] = []
        self.nfresh = 0
        self.queries = 0
        self.solver_s = 0.0
        self.unknown_branches = 0
        self._sqrts: list[tuple[Any, Any]] = []
        self._sqrt_factors: list = []
        self.xcheck = {"checked": 0, "agree": 0, "unknown": 0, "disagree": 0}
        self._trigs: list[tuple[Any, Any, Any]] = []
        self._acos: list[tuple[Any, Any]] = []
        self._pi = None
        self.assumptions: list[str] = []
        self.nonlinear = False
        self._flat: list = []

    # -- solver helpers ----------------------------------------------------
    def _check(self, *assumptions, timeout_ms=None):
        if timeout_ms is not None:
            self.solver.set("timeout", timeout_ms)
        t0 = time.time()
        r = self.solver.check(*assumptions)
        dt = time.time() - t0
        self.queries += 1
        self.solver_s += dt
        if timeout_ms is not None:
            self.solver.set("timeout", self.opts.branch_timeout_ms)
        return r

    def add(self, term, _derive=True):
        self.solver.add(term)
        cj = _conjuncts(z3.simplify(term))
        self._flat.extend(cj)
        if not self.nonlinear and any(_is_nonlinear(a) for a in cj):
            self.nonlinear = True
        if _derive and self._sqrts:
            for a in cj:
                self._derive_zero_roots(a)

    def _derive_zero_roots(self, a):
        """Sound consequences that keep degenerate paths linear: a constraint  sum_i k_i*r_i == 0  (or <= 0) over square-root
        variables r_i >= 0 with positive k_i forces every r_i = 0, and r = 0 with r*r = t_1^2 + ... + t_m^2 forces every t_j = 0."""
        if not (z3.is_eq(a) or z3.is_le(a) or z3.is_ge(a)):
            return
        lhs, rhs = a.arg(0), a.arg(1)
        d = z3.simplify(lhs - rhs) if not z3.is_ge(a) else z3.simplify(rhs - lhs)
        roots = {}
        for arg, var in self._sqrts:
            if z3.is_const(var):
                roots.setdefault(var.get_id(), (var, []))[1].append(arg)
        terms = d.children() if z3.is_add(d) else [d]
        found = []
        for t in terms:
            if z3.is_const(t) and t.get_id() in roots:
                found.append(t.get_id())
            elif z3.is_mul(t) and t.num_args() == 2 and z3.is_rational_value(t.arg(0)) and t.arg(0).numerator_as_long() > 0 and z3.is_const(t.arg(1)) and t.arg(1).get_id() in roots:
                found.append(t.arg(1).get_id())
            else:
                return
        for rid in found:
            var, args = roots[rid]
            facts = [var == 0]
            for e in args:
                sq = _squares(e)
                if sq:
                    facts.extend(t == 0 for t in sq)
            for f in facts:
                self.add(f, _derive=False)

    def _cone(self, terms):
        """Assertions that share variables (transitively) with `terms`."""
        vs = set()
        for t in terms:
            vs |= _vars(t)
        chosen, rest = [], list(self._flat)
        changed = True
        while changed:
            changed = False
            keep = []
            for a in rest:
                av = _vars(a)
                if av & vs:
                    chosen.append(a)
                    vs |= av
                    changed = True
                else:
                    keep.append(a)
            rest = keep
        return chosen, vs

    def _check_sliced(self, term, timeout_ms):
        """Satisfiability of cone(term) & term with a fresh (non-incremental) solver, so that z3 can
        use nlsat on the real-arithmetic slice.  Sound w.r.t. the whole path condition as long as
        the rest of it (disjoint variables) is satisfiable, which the end-of-path check decides."""
        chosen, _ = self._cone([term])
        t0 = time.time()
        # cheap pre-check on the linear part only (a subset of the constraints: unsat is conclusive)
        lin = [a for a in chosen if not _is_nonlinear(a)]
        tconj = _conjuncts(z3.simplify(term))
        if len(lin) < len(chosen) and lin and all(not _is_nonlinear(x) for x in tconj):
            sl = z3.Solver()
            sl.set("timeout", 2000)
            sl.add(lin)
            sl.add(term)
            if sl.check() == z3.unsat:
                self.queries += 1
                self.solver_s += time.time() - t0
                return z3.unsat
        # relaxation without the defining equations of the square roots (subset of the constraints: unsat is conclusive)
        relaxed = [a for a in chosen if not (z3.is_eq(a) and _is_nonlinear(a) and any("sqrt!" in v for v in _vars(a)))]
        if len(relaxed) < len(chosen):
            sr = z3.Solver()
            sr.set("timeout", min(2000, timeout_ms))
            sr.add(relaxed)
            sr.add(term)
            if sr.check() == z3.unsat:
                self.queries += 1
                self.solver_s += time.time() - t0
                return z3.unsat
        sv = z3.Solver()
        sv.set("timeout", timeout_ms)
        sv.add(chosen)
        sv.add(term)
        r = sv.check()
        self.queries += 1
        self.solver_s += time.time() - t0
        return r

    def _check_identity(self, term, timeout_ms):
        """unsat-only pre-check of `term` against the path condition WITHOUT the defining equations r*r = e of the
        engine-introduced square roots (the root variables stay, constrained only by their linear facts such as r >= 0,
        r != 0): a subset of the path condition, so unsat is conclusive; anything else falls back to the sliced check.
        Radicand / cosine identities such as |Rp-Rq|^2 = |p-q|^2 modulo c^2+s^2=1 are decided in well under a second this
        way, whereas the root definitions in the slice stall nlsat."""
        chosen, _ = self._cone([term])

        def is_def(a):
            return z3.is_eq(a) and _is_nonlinear(a) and any("sqrt!" in v for v in _vars(a))

        pure = [a for a in chosen if not is_def(a)]
        t0 = time.time()
        sv = z3.Solver()
        sv.set("timeout", timeout_ms)
        sv.add(pure)
        sv.add(term)
        r = sv.check()
        self.queries += 1
        self.solver_s += time.time() - t0
        if r == z3.unsat:
            return r
        return self._check_sliced(term, min(timeout_ms, 1000))

    def _nice_box(self):
        out = []
        for name, v in self.inputs.items():
            if z3.is_real(v) and z3.is_const(v) and name != "PI":
                out.append(z3.And(v >= -16, v <= 16, z3.Or(v == 0, v >= z3.Q(1, 16), v <= z3.Q(-1, 16))))
        return out

    def check_all(self, timeout_ms, want_model=False, nice=False):
        """Satisfiability of the whole path condition, component by component (fresh solvers).
        nice: additionally restrict real inputs to moderate magnitudes (used to pick witnesses that
        survive float32 replay; never used to decide feasibility)."""
        comps = _components(self._flat + (self._nice_box() if nice else []))
        models = []
        worst = z3.sat
        for comp in comps:
            sv = z3.Solver()
            sv.set("timeout", timeout_ms)
            sv.add(comp)
            t0 = time.time()
            r = sv.check()
            self.queries += 1
            self.solver_s += time.time() - t0
            if r == z3.unsat:
                return z3.unsat, None
            if r == z3.unknown:
                worst = z3.unknown
            elif want_model:
                models.append((sv.model(), set().union(*[_vars(a) for a in comp]) if comp else set()))
        if worst != z3.sat or not want_model:
            return worst, None
        out = {}
        for name, v in self.inputs.items():
            vv = _vars(v)
            m = next((m for m, vs in models if vv & vs), None)
            if m is None:
                m = models[0][0] if models else None
            out[name] = _val_to_py(m.eval(v, model_completion=True)) if m is not None else 0
        return z3.sat, out

    # -- inputs --------------------------------------------------------------
    def fresh(self, base: str) -> str:
        self.nfresh += 1
        return f"{base}!{self.nfresh}"

    def real(self, name: str, lo=None, hi=None, lo_strict=False) -> SymReal:
        v = z3.Real(name)
        self.inputs[name] = v
        if lo is not None:
            self.add(v > realval(lo) if lo_strict else v >= realval(lo))
        if hi is not None:
            self.add(v <= realval(hi))
        return SymReal(v)

    def int(self, name: str, lo: int, hi: int) -> SymInt:
        v = z3.Int(name)
        self.inputs[name] = v
        self.add(z3.And(v >= lo, v <= hi))
        return SymInt(v)

    def bool(self, name: str) -> SymBool:
        v = z3.Bool(name)
        self.inputs[name] = v
        return SymBool(v)

    def choice(self, name: str, n: int) -> int:
        """An integer in range(n), forked over all values (configuration fork)."""
        if n == 1:
            return 0
        return self.concretize(self.int(name, 0, n - 1))

    def pick(self, name: str, options):
        options = list(options)
        return options[self.choice(name, len(options))]

    def pi(self) -> SymReal:
        if self._pi is None:
            self._pi = z3.Real("PI")
            self.add(z3.And(self._pi > z3.Q(31415926, 10**7), self._pi < z3.Q(31415927, 10**7)))
        return SymReal(self._pi)

    # -- assumptions ---------------------------------------------------------
    def assume(self, cond, note: str = ""):
        if isinstance(cond, (bool, _np.bool_)):
            if not cond:
                raise PathAbort()
            return
        t = cond.t
        self.add(t)  # (sets self.nonlinear when t is)
        if self.nonlinear and self.opts.lazy_nonlinear:
            if self._check_sliced(t, self.opts.branch_timeout_ms) == z3.unsat:
                raise PathAbort()
        elif self._check() == z3.unsat:
            raise PathAbort()

    # -- control flow ----------------------------------------------------------
    def _record(self, kind, payload, choice, forked):
        if len(self.trace) >= self.opts.max_decisions:
            raise Inconclusive(f"more than {self.opts.max_decisions} decisions on one path")
        self.trace.append(Decision(kind, payload, choice, forked))

    def branch(self, term) -> bool:
        term = z3.simplify(term)
        if z3.is_true(term):
            return True
        if z3.is_false(term):
            return False
        pos = len(self.trace)
        if pos < len(self.prefix):
            d = self.prefix[pos]
            if d.kind != "b":
                raise HarnessError("replay desynchronised (expected a branch)")
            self.trace.append(Decision("b", None, d.choice, False))
            self.add(term if d.choice else z3.Not(term))
            return d.choice
        if not self.nonlinear and _is_nonlinear(term):
            self.nonlinear = True
        if self.nonlinear and self.opts.lazy_nonlinear:
            rt = self._check_sliced(term, self.opts.branch_timeout_ms)
        else:
            rt = self._check(term)
        if rt == z3.unsat:
            self._record("b", None, False, False)
            self.add(z3.Not(term))
            return False
        if self.nonlinear and self.opts.lazy_nonlinear:
            rf = self._check_sliced(z3.Not(term), self.opts.branch_timeout_ms)
        else:
            rf = self._check(z3.Not(term))
        if rf == z3.unsat:
            self._record("b", None, True, False)
            self.add(term)
            return True
        if rt == z3.unknown or rf == z3.unknown:
            self.unknown_branches += 1
        self._record("b", None, True, True)
        self.add(term)
        return True

    def concretize(self, s: SymInt) -> int:
        t = z3.simplify(s.t)
        if z3.is_int_value(t):
            return t.as_long()
        for _ in range(self.opts.max_concretize):
            pos = len(self.trace)
            if pos < len(self.prefix):
                d = self.prefix[pos]
                if d.kind != "c":
                    raise HarnessError("replay desynchronised (expected a concretisation)")
                v = d.payload
                self.trace.append(Decision("c", v, d.choice, False))
                if d.choice:
                    self.add(t == v)
                    return v
                self.add(t != v)
                continue
            if self.nonlinear and self.opts.lazy_nonlinear:
                # decide on the slice of the path condition that the integer depends on
                chosen, _ = self._cone([t])
                sv = z3.Solver()
                sv.set("timeout", self.opts.branch_timeout_ms)
                sv.add(chosen)
                t0 = time.time()
                r = sv.check()
                self.queries += 1
                self.solver_s += time.time() - t0
                mdl = sv.model() if r == z3.sat else None
            else:
                r = self._check()
                mdl = self.solver.model() if r == z3.sat else None
            if r != z3.sat:
                if r == z3.unsat:
                    raise PathAbort()
                raise Inconclusive("solver returned unknown while concretising an integer")
            v = mdl.eval(t, model_completion=True).as_long()
            if self.nonlinear and self.opts.lazy_nonlinear:
                other = self._check_sliced(t != v, self.opts.branch_timeout_ms)
            else:
                other = self._check(t != v)
            forked = other != z3.unsat
            self._record("c", v, True, forked)
            self.add(t == v)
            return v
        raise Inconclusive("too many candidate values for one integer")

    # -- non-polynomial functions ----------------------------------------------
    def sqrt(self, x: SymReal) -> SymReal:
        e = z3.simplify(x.t)
        if z3.is_rational_value(e):
            fr = fractions.Fraction(e.numerator_as_long(), e.denominator_as_long())
            if fr < 0:
                raise OutsideClaim("sqrt of a negative constant")
            n, d = math.isqrt(fr.numerator), math.isqrt(fr.denominator)
            if n * n == fr.numerator and d * d == fr.denominator:
                return SymReal(z3.Q(n, d), True)
        for arg, var in self._sqrts:
            if arg.eq(e):
                return SymReal(var, True)
        # sqrt resolution (DESIGN 3.2): sympy proposes g with e == g^2, z3 certifies the identity
        g = self._resolve_sqrt(e)
        if g is not None:
            if self.branch(g >= 0):
                return SymReal(g, True)
            return SymReal(-g, True)
        # hash-consing modulo proved equality of the argument (DESIGN 3.2)
        hc = getattr(self.opts, "hashcons_timeout_ms", 1000)
        for arg, var in list(self._sqrts):
            if self._check_identity(arg != e, hc) == z3.unsat:
                self._sqrts.append((e, var))
                return SymReal(var, True)
        # ... and modulo a registered non-negative factor f: sqrt(f^2 a) = f sqrt(a)
        for f in self._sqrt_factors:
            for arg, var in list(self._sqrts):
                if self._check_identity(f * f * arg != e, hc) == z3.unsat:
                    self._sqrts.append((e, f * var))
                    return SymReal(f * var, True)
        if not x.nn and self.branch(e < 0):
            raise OutsideClaim("sqrt of a negative number")
        var = z3.Real(self.fresh("sqrt"))
        self.add(z3.And(var >= 0, var * var == e))
        self._sqrts.append((e, var))
        self.nonlinear = True
        return SymReal(var, True)

    def sqrt_factor(self, f) -> bool:
        """Registers a factor f (proved >= 0 on this path) so that sqrt(f*f*a) is recognised as f*sqrt(a) for known roots."""
        t = as_term(f)
        if self._check_sliced(t < 0, 5000) != z3.unsat:
            return False
        self._sqrt_factors.append(to_real_term(t))
        return True

    def _resolve_sqrt(self, e):
        if not _is_nonlinear(e):
            return None
        from . import simplify as S

        key = e.sexpr()
        if key in _SQRT_CACHE:
            g = _SQRT_CACHE[key]  # sympy's (untrusted) proposal; certified below on every use
        else:
            g = S.propose_sqrt(e)
            if g is not None:
                g = z3.simplify(g)
            if len(_SQRT_CACHE) > 5000:
                _SQRT_CACHE.clear()
            _SQRT_CACHE[key] = g
        if g is None:
            return None
        sv = z3.Solver()
        sv.set("timeout", 20000)
        sv.add(e != g * g)
        # denominators the code divided by are non-zero on this path: add the slice of the pc
        sv.add(self._cone([e])[0])
        t0 = time.time()
        r = sv.check()
        self.queries += 1
        self.solver_s += time.time() - t0
        return g if r == z3.unsat else None

    def _identity(self, a, b) -> bool:
        sv = z3.Solver()
        sv.set("timeout", 20000)
        sv.add(a != b)
        return sv.check() == z3.unsat

    def simp(self, x, min_size=12):
        """Certified simplification of a symbolic real (sympy proposes, z3 proves equality under the pc)."""
        if not isinstance(x, SymReal):
            return x
        from . import simplify as S

        t = z3.simplify(x.t)
        if S.term_size(t) < min_size:
            return x
        key = "S:" + t.sexpr()
        if key in _SQRT_CACHE:
            c = _SQRT_CACHE[key]
        else:
            c = S.propose_simplified(t)
            if c is not None:
                c = z3.simplify(c)
            _SQRT_CACHE[key] = c
        if c is not None:
            sv = z3.Solver()
            sv.set("timeout", 30000)
            sv.add(t != c)
            sv.add(self._cone([t])[0])
            t0 = time.time()
            r = sv.check()
            self.queries += 1
            self.solver_s += time.time() - t0
            if r != z3.unsat or S.term_size(c) >= S.term_size(t):
                c = None
        return SymReal(c, x.nn) if c is not None else x

    def trig(self, x: SymReal):
        e = z3.simplify(x.t)
        for arg, c, s in self._trigs:
            if arg.eq(e):
                return SymReal(c), SymReal(s)
        if z3.is_rational_value(e) and e.numerator_as_long() == 0:
            return SymReal(realval(1)), SymReal(realval(0))
        # cos(-a) = cos(a), sin(-a) = -sin(a)
        for arg, c, s in self._trigs:
            if z3.simplify(arg + e).eq(z3.simplify(realval(0))) or z3.simplify(-arg).eq(e):
                return SymReal(c), SymReal(-s)
        c, s = z3.Real(self.fresh("cos")), z3.Real(self.fresh("sin"))
        self.add(c * c + s * s == 1)
        self._trigs.append((e, c, s))
        self.nonlinear = True
        return SymReal(c), SymReal(s)

    def angle(self, name: str):
        """A symbolic angle: returns (theta, cos, sin) with theta an opaque real."""
        th = self.real(name)
        c, s = self.trig(th)
        self.inputs[name + ".cos"] = c.t
        self.inputs[name + ".sin"] = s.t
        return th, c, s

    def arccos(self, x: SymReal) -> SymReal:
        """arccos as an opaque function: one real variable per argument, shared between arguments that the
        solver proves equal under the path condition (congruence by hash-consing, like sqrt).  Only
        0 <= theta <= PI and the three special values are known about it."""
        e = z3.simplify(x.t)
        if z3.is_rational_value(e):
            num, den = e.numerator_as_long(), e.denominator_as_long()
            if num == den:
                return SymReal(realval(0))
            if num == -den:
                return self.pi()
            if num == 0:
                return self.pi() / 2
        for arg, var in self._acos:
            if arg.eq(e):
                return SymReal(var, True)
        for arg, var in self._acos:
            if self._check_identity(arg != e, max(3000, getattr(self.opts, "hashcons_timeout_ms", 1000))) == z3.unsat:
                self._acos.append((e, var))
                return SymReal(var, True)
        var = z3.Real(self.fresh("acos"))
        self.add(z3.And(var >= 0, var <= self.pi().t))
        self._acos.append((e, var))
        return SymReal(var, True)

    # -- obligations -----------------------------------------------------------
    def model_dict(self, m) -> dict:
        out = {}
        for name, v in self.inputs.items():
            val = m.eval(v, model_completion=True)
            out[name] = _val_to_py(val)
        return out

    def prove(self, name: str, cond, detail: str = "") -> bool:
        """Obligation: pc |= cond.  Returns True when discharged."""
        if isinstance(cond, (bool, _np.bool_)):
            if cond:
                self.obligations.append(Obligation(name, "discharged", "concrete"))
                return True
            m = None
            if self.nonlinear:
                m = self.check_all(self.opts.oblig_timeout_ms, want_model=True)[1]
            elif self._check(timeout_ms=self.opts.oblig_timeout_ms) == z3.sat:
                m = self.model_dict(self.solver.model())
            self.obligations.append(Obligation(name, "violated", detail or "concretely false on this path", m))
            return False
        t0 = time.time()
        goals = _conjuncts(z3.simplify(cond.t))
        for g in goals:
            r, m, why = self._decide(g)
            if r == z3.unsat:
                continue
            dt = time.time() - t0
            if r == z3.sat:
                self.obligations.append(Obligation(name, "violated", detail, m, dt))
            else:
                self.obligations.append(Obligation(name, "unknown", detail + " " + why, None, dt))
            return False
        self.obligations.append(Obligation(name, "discharged", "", None, time.time() - t0))
        return True

    def _decide(self, goal):
        """Is pc & not(goal) satisfiable?  -> (result, model dict or None, reason)."""
        r, m, why = self._decide0(goal)
        if r == z3.sat and any(z3.is_real(v) for v in self.inputs.values()):
            better = self._nicer_model(goal)
            if better is not None:
                m = better
        return r, m, why

    def _nicer_model(self, goal):
        """A counterexample with well-conditioned values (moderate magnitudes, a violation that is
        not of rounding size), so that the float32/float64 replay on the real code can show it."""
        chosen, vs = self._cone([goal])
        sv = z3.Solver()
        sv.set("timeout", 15000)
        sv.add(chosen)
        sv.add(z3.Not(goal))
        for name, v in self.inputs.items():
            if z3.is_real(v) and z3.is_const(v) and name in vs and name != "PI":
                sv.add(z3.And(v >= -16, v <= 16, z3.Or(v == 0, v >= z3.Q(1, 16), v <= z3.Q(-1, 16))))
        if z3.is_eq(goal) and z3.is_real(goal.arg(0)):
            d = goal.arg(0) - goal.arg(1)
            b = goal.arg(1)
            sv.push()
            sv.add(z3.Or(d >= z3.Q(1, 50), d <= z3.Q(-1, 50)))
            r = sv.check()
            if r != z3.sat:
                sv.pop()
                r = sv.check()
            if r != z3.sat:
                # small-scale inputs: any magnitudes, but a violation of at least 0.1 % of the expected value (the replay compares at 0.01 %)
                sv = z3.Solver()
                sv.set("timeout", 30000)
                sv.add(chosen)
                sv.add(z3.Not(goal))
                sv.add(z3.Or(z3.And(b > 0, z3.Or(d * 1000 >= b, d * 1000 <= -b)), z3.And(b < 0, z3.Or(d * 1000 >= -b, d * 1000 <= b))))
                r = sv.check()
        else:
            r = sv.check()
        self.queries += 1
        if r != z3.sat:
            return None
        m = sv.model()
        out = {}
        base = None
        for name, v in self.inputs.items():
            if _vars(v) & vs:
                out[name] = _val_to_py(m.eval(v, model_completion=True))
            else:
                if base is None:
                    base = self.check_all(self.opts.oblig_timeout_ms, want_model=True)[1] or {}
                out[name] = base.get(name, 0)
        return out

    def _decide0(self, goal):
        r = self._decide1(goal)
        if r[0] == z3.unsat and self.opts.crosscheck_mod > 0 and not z3.is_true(goal):
            self._crosscheck(goal)
        return r

    def _crosscheck(self, goal):
        """Second opinion (DESIGN 2.3): a deterministic sample of the discharged obligations is re-decided by cvc5 on the SMT-LIB
        dump of the same query (cone of the path condition and the negated goal). `sat` from cvc5 is a disagreement (harness error)."""
        import hashlib

        h = int(hashlib.sha1(goal.sexpr().encode()).hexdigest()[:8], 16)
        if (h + self.opts.crosscheck_seed) % self.opts.crosscheck_mod != 0:
            return
        chosen, _ = self._cone([goal])
        sv = z3.Solver()
        sv.add(chosen)
        sv.add(z3.Not(goal))
        try:
            res = cvc5_check(sv.to_smt2(), 10000)
        except Exception as e:  # noqa: BLE001 - parser / option problems of the second solver are not verdicts
            res = "error:" + repr(e)[:80]
        self.xcheck["checked"] += 1
        if res == "unsat":
            self.xcheck["agree"] += 1
        elif res == "sat":
            self.xcheck["disagree"] += 1
            self.notes.append("cvc5-disagrees:" + goal.sexpr()[:200])
        else:
            self.xcheck["unknown"] += 1

    def _decide1(self, goal):
        if z3.is_true(goal):
            return z3.unsat, None, ""
        if not getattr(self, "_skip_incremental", False) and not self.nonlinear:
            self.solver.push()
            self.solver.add(z3.Not(goal))
            r = self._check(timeout_ms=min(1500, self.opts.oblig_timeout_ms))
            m = self.model_dict(self.solver.model()) if r == z3.sat else None
            self.solver.pop()
            if r != z3.unknown:
                return r, m, ""
            self._skip_incremental = True
        # fresh non-incremental solver on the cone of influence of the goal (assertions that share
        # variables with it, transitively): pure-real slices let z3 use its nlsat strategy
        chosen, vs = self._cone([goal])
        # relaxation first: without the defining equations r*r = e of the square roots (a subset of the path condition, so
        # `unsat` is conclusive). Orderings and sums of lengths are linear in the root variables and are decided in
        # milliseconds this way, where nlsat needs many seconds on the full slice.
        relaxed = [a for a in chosen if not (z3.is_eq(a) and _is_nonlinear(a) and any("sqrt!" in v for v in _vars(a)))]
        if len(relaxed) < len(chosen):
            sr = z3.Solver()
            sr.set("timeout", min(5000, self.opts.oblig_timeout_ms))
            sr.add(relaxed)
            sr.add(z3.Not(goal))
            t1 = time.time()
            rr = sr.check()
            self.queries += 1
            self.solver_s += time.time() - t1
            if rr == z3.unsat:
                return rr, None, ""
        solver = z3.Solver()
        solver.set("timeout", self.opts.oblig_timeout_ms)
        solver.add(chosen)
        solver.add(z3.Not(goal))
        t1 = time.time()
        r = solver.check()
        self.queries += 1
        self.solver_s += time.time() - t1
        if r == z3.sat:
            m = solver.model()
            out = {}
            base = None
            for name, v in self.inputs.items():
                if _vars(v) & vs:
                    out[name] = _val_to_py(m.eval(v, model_completion=True))
                else:
                    if base is None:
                        rb, base = self.check_all(self.opts.oblig_timeout_ms, want_model=True)
                        base = base or {}
                    out[name] = base.get(name, 0)
            return r, out, ""
        return r, None, (solver.reason_unknown() if r == z3.unknown else "")

    def prove_eq(self, name: str, a, b, detail: str = "", tol=None) -> bool:
        if not is_sym(a) and not is_sym(b):
            ok = _concrete_close(a, b)
            return self.prove(name, bool(ok), detail or f"{a!r} != {b!r}")
        return self.prove(name, _binop(a, b, lambda x, y: x == y), detail)

    def lemma(self, cond, timeout_ms=20000) -> bool:
        """Proves `cond` from the path condition and, only if proved, adds it as an assertion so that
        later queries can use it (e.g. Cauchy-Schwarz before a cosine is clipped)."""
        if isinstance(cond, (bool, _np.bool_)):
            return bool(cond)
        r = self._check_sliced(z3.Not(cond.t), timeout_ms)
        if r == z3.unsat:
            self.add(cond.t)
            return True
        return False

    def reachable(self, name: str, cond=True):
        """Reachability twin: records that `cond` is satisfiable on this path."""
        if isinstance(cond, (bool, _np.bool_)):
            ok = bool(cond)
        elif self.nonlinear:
            ok = self._check_sliced(cond.t, self.opts.branch_timeout_ms) == z3.sat
        else:
            ok = self._check(cond.t) == z3.sat
        if ok:
            self.notes.append("reach:" + name)
        return ok

    def output(self, name: str, value):
        self.outputs[name] = value

    def uf(self, name: str, arity: int):
        """An uninterpreted function Int^arity -> Int ("any callback")."""
        f = z3.Function(name, *([z3.IntSort()] * (arity + 1)))

        def call(*args):
            return SymInt(f(*[as_term(a) for a in args]))

        return call

    def note(self, s: str):
        if s not in self.notes:
            self.notes.append(s)


_VARS_CACHE: dict = {}
_SQRT_CACHE: dict = {}


def cvc5_check(smt2: str, timeout_ms: int = 10000):
    import cvc5

    slv = cvc5.Solver()
    slv.setOption("tlimit-per", str(timeout_ms))
    slv.setLogic("ALL")
    p = cvc5.InputParser(slv)
    p.setStringInput(cvc5.InputLanguage.SMT_LIB_2_6, smt2, "q")
    sm = p.getSymbolManager()
    res = None
    while True:
        cmd = p.nextCommand()
        if cmd.isNull():
            break
        out = str(cmd.invoke(slv, sm)).strip()
        if out in ("sat", "unsat", "unknown"):
            res = out
    return res


def _squares(e):
    """e == t_1^2 + ... + t_m^2 syntactically -> [t_1..t_m], else None."""
    terms = e.children() if z3.is_add(e) else [e]
    out = []
    for t in terms:
        if z3.is_mul(t) and t.num_args() == 2 and t.arg(0).eq(t.arg(1)):
            out.append(t.arg(0))
        elif z3.is_app_of(t, z3.Z3_OP_POWER) and z3.is_rational_value(t.arg(1)) and t.arg(1).numerator_as_long() == 2 and t.arg(1).denominator_as_long() == 1:
            out.append(t.arg(0))
        elif z3.is_rational_value(t) and t.numerator_as_long() == 0:
            continue
        else:
            return None
    return out


def _vars(t) -> frozenset:
    key = t.get_id()
    hit = _VARS_CACHE.get(key)
    if hit is not None and hit[0].eq(t):
        return hit[1]
    out = set()
    seen = set()
    stack = [t]
    while stack:
        e = stack.pop()
        i = e.get_id()
        if i in seen:
            continue
        seen.add(i)
        if z3.is_const(e):
            if e.decl().kind() == z3.Z3_OP_UNINTERPRETED:
                out.add(e.decl().name())
        else:
            stack.extend(e.children())
    fs = frozenset(out)
    if len(_VARS_CACHE) > 20000:
        _VARS_CACHE.clear()
    _VARS_CACHE[key] = (t, fs)
    return fs


def _is_nonlinear(t) -> bool:
    stack, seen = [t], set()
    while stack:
        e = stack.pop()
        i = e.get_id()
        if i in seen:
            continue
        seen.add(i)
        if z3.is_app(e):
            k = e.decl().kind()
            ch = e.children()
            if k == z3.Z3_OP_MUL and sum(1 for x in ch if not (z3.is_rational_value(x) or z3.is_int_value(x))) >= 2:
                return True
            if k in (z3.Z3_OP_DIV, z3.Z3_OP_IDIV, z3.Z3_OP_MOD) and len(ch) == 2 and not (z3.is_rational_value(ch[1]) or z3.is_int_value(ch[1])):
                return True
            if k == z3.Z3_OP_POWER:
                return True
            stack.extend(ch)
    return False


def _components(asserts):
    """Partition assertions into groups with pairwise disjoint variable sets."""
    groups = []  # (varset, [asserts])
    for a in asserts:
        av = set(_vars(a))
        hit = [g for g in groups if g[0] & av]
        for g in hit:
            groups.remove(g)
            av |= g[0]
        groups.append((av, [x for g in hit for x in g[1]] + [a]))
    return [g[1] for g in groups]


def _conjuncts(t):
    if z3.is_and(t):
        out = []
        for ch in t.children():
            out.extend(_conjuncts(ch))
        return out
    return [t]


def _val_to_py(val):
    if z3.is_int_value(val):
        return val.as_long()
    if z3.is_rational_value(val):
        n, d = val.numerator_as_long(), val.denominator_as_long()
        if len(str(n)) + len(str(d)) > 60:
            # nlsat sometimes returns rationals with thousands of digits: keep 40 significant digits
            import decimal

            with decimal.localcontext() as dc:
                dc.prec = 40
                return str(decimal.Decimal(n) / decimal.Decimal(d))
        return f"{n}/{d}"
    if z3.is_true(val):
        return True
    if z3.is_false(val):
        return False
    if z3.is_algebraic_value(val):
        return val.approx(12).as_decimal(12).rstrip("?")
    return str(val)


def _concrete_close(a, b, rtol=1e-4, atol=1e-5) -> bool:
    try:
        if isinstance(a, (int, _np.integer)) and isinstance(b, (int, _np.integer)):
            return int(a) == int(b)
        a, b = float(a), float(b)
    except (TypeError, ValueError):
        return a == b
    return abs(a - b) <= atol + rtol * max(abs(a), abs(b))


# --------------------------------------------------------------------------- explorer


@dataclass
class PathResult:
    status: str  # ok | abort | outside | error | inconclusive
    trace: list
    obligations: list
    notes: list
    queries: int
    solver_s: float
    decisions: int
    witness: Optional[dict] = None
    outputs: Optional[dict] = None
    message: str = ""
    unknown_branches: int = 0
    nonlinear: bool = False
    witness_nice: bool = False


def run_path(fn: Callable, params: dict, prefix: list, opts: Options, want_witness=True) -> PathResult:
    global _CTX
    c = SymCtx(prefix, opts, params)
    _CTX = c
    status, msg = "ok", ""
    try:
        fn(c, **params)
    except PathAbort:
        status = "abort"
    except OutsideClaim as e:
        status, msg = "outside", str(e)
    except Inconclusive as e:
        status, msg = "inconclusive", str(e)
    finally:
        _CTX = None
    witness = None
    nice = False
    if status == "ok":
        if c.nonlinear:
            r, witness = c.check_all(opts.oblig_timeout_ms, want_model=want_witness)
            if r == z3.sat and want_witness:
                r2, w2 = c.check_all(min(5000, opts.oblig_timeout_ms), want_model=True, nice=True)
                if r2 == z3.sat and w2 is not None:
                    witness, nice = w2, True
        else:
            r = c._check(timeout_ms=opts.oblig_timeout_ms)
            if r == z3.sat and want_witness:
                witness = c.model_dict(c.solver.model())
                if any(z3.is_real(v) for v in c.inputs.values()):
                    box = c._nice_box()
                    if c.solver.check(*box) == z3.sat:
                        witness, nice = c.model_dict(c.solver.model()), True
                else:
                    nice = True
        if r == z3.unsat:
            status = "abort"  # lazily discovered infeasible path
        elif r == z3.unknown:
            # every obligation on this path was decided as `pc |= phi`, which is valid whether or not pc is
            # satisfiable; only the witness (and its validation) is missing.  Vacuity is guarded separately
            # by the reachability twins.
            c.notes.append("feasibility-unknown")
            witness = None
    elif status == "outside":
        if c.nonlinear:
            r, witness = c.check_all(opts.branch_timeout_ms, want_model=want_witness, nice=True)
            if r != z3.sat:
                r, witness = c.check_all(opts.branch_timeout_ms, want_model=want_witness)
            else:
                nice = True
        else:
            r = c._check(timeout_ms=opts.branch_timeout_ms)
            if r == z3.sat and want_witness:
                witness = c.model_dict(c.solver.model())
                box = c._nice_box()
                if box and c.solver.check(*box) == z3.sat:
                    witness, nice = c.model_dict(c.solver.model()), True
        if r == z3.unsat:
            status = "abort"
        if r != z3.sat:
            witness = None
    if c.xcheck["checked"]:
        c.notes.append("xcheck:%d:%d:%d:%d" % (c.xcheck["checked"], c.xcheck["agree"], c.xcheck["unknown"], c.xcheck["disagree"]))
    outs = {k: _render(v, c) for k, v in c.outputs.items()} if status == "ok" else None
    pr = PathResult(status, c.trace, c.obligations, c.notes, c.queries, c.solver_s, len(c.trace), witness, outs, msg, c.unknown_branches, c.nonlinear)
    pr.witness_nice = nice
    return pr


def _render(v, c):
    try:
        if is_sym(v):
            return v.t.sexpr()[:200]
        return repr(v)[:200]
    except Exception:  # noqa
        return "?"


def successors(trace: list, prefix_len: int) -> list[list]:
    """Prefixes for the unexplored siblings of a finished path."""
    out = []
    for i in range(len(trace) - 1, prefix_len - 1, -1):
        d = trace[i]
        if d.forked and d.choice:
            out.append(trace[:i] + [Decision(d.kind, d.payload, False, False)])
    return out


def explore(fn, params, opts: Options, root_prefix=None, max_paths=100000, on_path=None, budget_s=None):
    """Depth-first exploration below root_prefix. Returns (results, leftover_prefixes)."""
    stack = [list(root_prefix or [])]
    results = []
    t0 = time.time()
    while stack:
        if len(results) >= max_paths or (budget_s is not None and time.time() - t0 > budget_s):
            break
        prefix = stack.pop()
        res = run_path(fn, params, prefix, opts)
        results.append(res)
        if on_path:
            on_path(res)
        if res.status == "inconclusive" and not res.trace:
            continue
        stack.extend(successors(res.trace, len(prefix)))
    return results, stack
