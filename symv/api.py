"""Harness-side API: works both under the symbolic context (SymCtx) and under
the concrete replay context (ConcreteCtx), so that one harness function serves
for exploration, witness validation and counterexample replay."""
from __future__ import annotations

import fractions
import math

import numpy as _np
import z3

from . import engine as E
from .engine import (HarnessError, OutsideClaim, PathAbort, Sym, SymBool, SymInt,
                     SymReal, is_sym)


# --------------------------------------------------------------------------- polymorphic helpers


def sqrt(x):
    if isinstance(x, Sym):
        return x.sqrt()
    return math.sqrt(x) if x >= 0 else float("nan")


def acos(x):
    """arccos as the engine models it (uninterpreted, congruence only) / math.acos concretely."""
    if isinstance(x, Sym):
        return E._as_real_sym(x).arccos()
    return math.acos(max(-1.0, min(1.0, float(x))))


def degrees(x, c):
    if isinstance(x, Sym):
        return x * 180 / c.pi()
    return math.degrees(x)


def clip(x, lo, hi):
    return ite(x < lo, lo, ite(x > hi, hi, x))


def And(*cs):
    cs = [c for c in cs]
    if any(isinstance(c, SymBool) for c in cs):
        ts = [E.as_bool_term(c) for c in cs]
        return SymBool(z3.And(*ts)) if ts else True
    return all(bool(c) for c in cs)


def Or(*cs):
    if any(isinstance(c, SymBool) for c in cs):
        ts = [E.as_bool_term(c) for c in cs]
        return SymBool(z3.Or(*ts))
    return any(bool(c) for c in cs)


def Not(c):
    if isinstance(c, SymBool):
        return ~c
    return not bool(c)


def Implies(a, b):
    return Or(Not(a), b)


def ite(c, a, b):
    if isinstance(c, SymBool):
        return c.ite(a, b)
    return a if c else b


def eq(a, b, tol=None):
    """Exact equality as a condition (symbolic) / tolerant equality (concrete; tol = absolute tolerance
    for quantities that are ill-conditioned in floating point, e.g. angles near 0 or 180 degrees)."""
    if is_sym(a) or is_sym(b):
        return a == b
    if tol is not None:
        return abs(float(a) - float(b)) <= tol
    return E._concrete_close(a, b)


def le(a, b, slack=1e-4, tol=0.0):
    if is_sym(a) or is_sym(b):
        return a <= b
    return float(a) <= float(b) + tol + slack * (1 + abs(float(a)) + abs(float(b)))


def lt_strict(a, b):
    return a < b


def vmin(a, b):
    return ite(a <= b, a, b)


def vmax(a, b):
    return ite(a >= b, a, b)


def vabs(a):
    return abs(a)


def total(xs):
    s = 0
    for x in xs:
        s = s + x
    return s


def dist2(p, q):
    return total((a - b) * (a - b) for a, b in zip(p, q))


def dist(p, q):
    return sqrt(dist2(p, q))


def flat(v):
    """Flatten arrays / nested lists of scalars to a python list."""
    if isinstance(v, _np.ndarray):
        from .symnp import _strip

        return list(_np.asarray(_strip(v), dtype=object).reshape(-1))
    if isinstance(v, (list, tuple)):
        out = []
        for x in v:
            out.extend(flat(x))
        return out
    return [v]


def concrete_int(v) -> int:
    return int(v)


# --------------------------------------------------------------------------- concrete context


def _to_float(v):
    if isinstance(v, str):
        if "/" in v:
            a, b = v.split("/")
            return int(a) / int(b)
        return float(v.rstrip("?"))  # also decimal renderings of very long rationals
    return v


class ConcreteCtx:
    """Replays a model on the real code with real numpy (no proxy, no Sym)."""

    mode = "concrete"

    tight = False  # counterexample replay: compare relative to the magnitude of the values (small-scale inputs)

    def __init__(self, model: dict, params: dict):
        self.model = model
        self.params = params
        self.obligations: list[E.Obligation] = []
        self.outputs: dict = {}
        self.notes: list[str] = []
        self.assumptions: list[str] = []

    def _get(self, name, default=0):
        if name not in self.model:
            return default
        return self.model[name]

    def real(self, name, lo=None, hi=None, lo_strict=False):
        v = float(_to_float(self._get(name, 0.0 if lo is None else lo)))
        return v

    def int(self, name, lo, hi):
        return int(self._get(name, lo))

    def bool(self, name):
        return bool(self._get(name, False))

    def choice(self, name, n):
        return 0 if n == 1 else int(self._get(name, 0))

    def pick(self, name, options):
        options = list(options)
        return options[self.choice(name, len(options))]

    def pi(self):
        return math.pi

    def angle(self, name):
        c = float(_to_float(self._get(name + ".cos", 1.0)))
        s = float(_to_float(self._get(name + ".sin", 0.0)))
        return math.atan2(s, c), c, s

    def assume(self, cond, note=""):
        if not bool(cond):
            raise PathAbort()

    def concretize(self, v):
        return int(v)

    def prove(self, name, cond, detail=""):
        ok = bool(cond)
        self.obligations.append(E.Obligation(name, "discharged" if ok else "violated", detail))
        return ok

    def prove_eq(self, name, a, b, detail="", tol=None):
        rtol = self.params.get("_rtol", 2e-3)
        atol = tol if tol is not None else self.params.get("_atol", 2e-3)
        if self.tight and tol is None:
            # replay of a solver counterexample: the violation has to show above float32 storage noise only
            rtol = min(rtol, 1e-4)
            try:
                atol = min(atol, rtol * max(abs(float(a)), abs(float(b))))
            except (TypeError, ValueError):
                pass
        ok = E._concrete_close(a, b, rtol=rtol, atol=atol)
        self.obligations.append(E.Obligation(name, "discharged" if ok else "violated", detail or f"{a!r} != {b!r}"))
        return ok

    def reachable(self, name, cond=True):
        if bool(cond):
            self.notes.append("reach:" + name)
        return bool(cond)

    def output(self, name, value):
        self.outputs[name] = value

    def uf(self, name, arity):
        """Concrete stand-in for an uninterpreted function: a collision-free-in-practice hash."""
        import hashlib

        def call(*args):
            h = hashlib.sha1((name + ":" + ",".join(str(int(a)) for a in args)).encode()).hexdigest()
            return int(h[:12], 16)

        return call

    def note(self, s):
        self.notes.append(s)

    def simp(self, x, min_size=12):
        return x

    def lemma(self, cond, timeout_ms=0):
        return bool(cond)

    def sqrt_factor(self, f):
        return True


def run_concrete(fn, params: dict, model: dict, tight: bool = False):
    """Returns (status, ctx, exception)."""
    from . import symnp

    symnp.uninstall()
    prev = E._CTX
    E._CTX = None
    c = ConcreteCtx(model, params)
    c.tight = tight
    try:
        with _np.errstate(all="ignore"):
            fn(c, **params)
        return "ok", c, None
    except PathAbort:
        return "abort", c, None
    except OutsideClaim as e:
        return "outside", c, e
    except Exception as e:  # noqa: BLE001 - the real code raised
        return "exception", c, e
    finally:
        E._CTX = prev
        symnp.install()
