"""symv - solver-based checking of the real swcgeom code (see /verif/DESIGN.md)."""
