import argparse
import os
import sys


def main():
    ap = argparse.ArgumentParser()
    ap.add_argument("prop", nargs="?")
    ap.add_argument("--tier", default=os.environ.get("VERIF_TIER", "quick"), choices=["quick", "thorough"])
    ap.add_argument("--only", default=None)
    ap.add_argument("--replay", default=None)
    ap.add_argument("-v", action="store_true")
    a = ap.parse_args()
    sys.set_int_max_str_digits(0)  # models may contain very long rationals
    from . import runner

    if a.replay:
        sys.exit(runner.replay_file(a.replay))
    if not a.prop:
        ap.error("property id required")
    sys.exit(runner.run_property(a.prop, a.tier, only=a.only.split(",") if a.only else None, verbose=a.v))


if __name__ == "__main__":
    main()
