"""E1: numpy integration - object-dtype ndarray subclass carrying symbolic
scalars plus a proxy module that is bound to the global name `np` of the
analysed swcgeom modules (DESIGN.md section 2.1)."""
from __future__ import annotations

import types

import numpy as _np
import z3

from . import engine as E
from .engine import Sym, SymBool, SymInt, SymReal, ctx, is_sym

_F32, _F64 = _np.dtype(_np.float32), _np.dtype(_np.float64)


def has_sym(a) -> bool:
    if isinstance(a, Sym):
        return True
    if isinstance(a, _np.ndarray):
        if isinstance(a, SArr):
            return any(isinstance(x, Sym) for x in a.raw.flat)
        if a.dtype != object:
            return False
        return any(isinstance(x, Sym) for x in _np.asarray(a, dtype=object).flat)
    if isinstance(a, (list, tuple)):
        return any(has_sym(x) for x in a)
    return False


class SArr(_np.ndarray):
    """object-dtype array of Sym / python numbers with a logical float dtype."""

    def __new__(cls, data, ldt=_F64):
        base = _np.empty(_np.shape(data), dtype=object) if not isinstance(data, _np.ndarray) else None
        if isinstance(data, _np.ndarray):
            arr = _np.array(data, dtype=object, copy=True)
        else:
            arr = _obj_array(data)
        obj = arr.view(cls)
        obj._ldt = _np.dtype(ldt)
        return obj

    def __array_finalize__(self, obj):
        self._ldt = getattr(obj, "_ldt", _F64)

    @property
    def dtype(self):  # logical dtype, what swcgeom code sees
        return self._ldt

    @property
    def raw(self) -> _np.ndarray:
        return self.view(_np.ndarray)

    def astype(self, dtype, *a, **k):
        return _astype(self, dtype)

    def copy(self, *a, **k):
        r = self.raw.copy().view(SArr)
        r._ldt = self._ldt
        return r

    def __deepcopy__(self, memo):
        return self.copy()

    def __reduce__(self):
        raise E.HarnessError("pickling a symbolic array")

    def item(self, *args):
        return self.raw.item(*args)

    def tolist(self):
        return self.raw.tolist()

    def __array_function__(self, func, types_, args, kwargs):
        h = _FUNCS.get(func)
        if h is not None:
            return h(*args, **kwargs)
        ldt = _common_ldt(args)
        res = func._implementation(*_strip(args), **_strip(kwargs))
        return _rewrap(res, ldt)

    def __array_ufunc__(self, ufunc, method, *inputs, out=None, **kwargs):
        h = _UFUNCS.get(ufunc)
        if h is not None and method == "__call__" and out is None:
            return h(*inputs, **kwargs)
        ldt = _common_ldt(inputs)
        ins = _strip(inputs)
        if out is not None:
            kwargs["out"] = tuple(_strip(o) for o in out)
        if ufunc in _CMP and method == "__call__" and out is None:
            kwargs.setdefault("dtype", object)
            res = getattr(ufunc, method)(*ins, **kwargs)
            return _bool_result(res)
        res = getattr(ufunc, method)(*ins, **kwargs)
        if out is not None:
            return out[0] if len(out) == 1 else out
        return _rewrap(res, ldt)

    # comparisons go through __array_ufunc__; python `in`
    def __contains__(self, v):
        return any(bool(x == v) for x in self.raw.flat)

    def __repr__(self):
        return f"SArr({self.raw!r}, ldt={self._ldt})"

    # methods that numpy implements in C on the raw dtype
    def min(self, axis=None, **k):
        return _np.min(self, axis=axis, **k)

    def max(self, axis=None, **k):
        return _np.max(self, axis=axis, **k)

    def argmin(self, axis=None, **k):
        return _np.argmin(self, axis=axis, **k)

    def argmax(self, axis=None, **k):
        return _np.argmax(self, axis=axis, **k)

    def sum(self, axis=None, **k):
        return _rewrap(self.raw.sum(axis=axis, **k), self._ldt)

    def prod(self, axis=None, **k):
        return _rewrap(self.raw.prod(axis=axis, **k), self._ldt)

    def dot(self, b):
        return _rewrap(self.raw.dot(_strip(b)), _common_ldt((self, b)))

    def any(self, *a, **k):
        return builtins_any(bool(x) for x in self.raw.flat)

    def all(self, *a, **k):
        return builtins_all(bool(x) for x in self.raw.flat)


import builtins as _b

builtins_any, builtins_all = _b.any, _b.all


def _obj_array(data):
    """Build an object ndarray with the shape numpy would infer, without
    triggering __len__/__iter__ of Sym scalars."""
    if isinstance(data, Sym) or not isinstance(data, (list, tuple, _np.ndarray)):
        a = _np.empty((), dtype=object)
        a[()] = data
        return a
    if isinstance(data, _np.ndarray):
        return _np.array(data, dtype=object)
    items = [_obj_array(x) for x in data]
    if not items:
        return _np.empty((0,), dtype=object)
    shp = items[0].shape
    if any(i.shape != shp for i in items):
        raise ValueError("inhomogeneous shape")
    out = _np.empty((len(items),) + shp, dtype=object)
    for i, it in enumerate(items):
        if it.ndim == 0:
            out[i] = it[()]
        else:
            out[i, ...] = it
    return out


def _strip(a):
    if isinstance(a, SArr):
        return a.raw
    if isinstance(a, tuple):
        return tuple(_strip(x) for x in a)
    if isinstance(a, list):
        return [_strip(x) for x in a]
    if isinstance(a, dict):
        return {k: _strip(v) for k, v in a.items()}
    return a


def _common_ldt(args):
    ldt = None
    for a in _flatten(args):
        if isinstance(a, SArr):
            ldt = a._ldt if ldt is None else _np.promote_types(ldt, a._ldt)
    return ldt or _F64


def _flatten(args):
    for a in args:
        if isinstance(a, (list, tuple)):
            yield from _flatten(a)
        else:
            yield a


def _rewrap(res, ldt=_F64):
    if isinstance(res, _np.ndarray) and not isinstance(res, SArr) and res.dtype == object:
        if res.ndim == 0:
            return res[()]
        r = res.view(SArr)
        r._ldt = _np.dtype(ldt)
        return r
    if isinstance(res, tuple):
        return tuple(_rewrap(x, ldt) for x in res)
    if isinstance(res, list):
        return [_rewrap(x, ldt) for x in res]
    if isinstance(res, (int, float)) and not isinstance(res, bool):
        # reductions of empty / all-concrete object arrays give python numbers; numpy gives scalars
        return _np.dtype(ldt).type(res) if _np.dtype(ldt).kind == "f" else res
    return res


def _bool_result(res):
    """Result of an elementwise comparison computed with dtype=object:
    evaluate symbolic booleans by forking, return a genuine bool array."""
    if isinstance(res, _np.ndarray):
        out = _np.empty(res.shape, dtype=bool)
        flat = out.reshape(-1)
        for i, x in enumerate(res.reshape(-1)):
            flat[i] = bool(x)
        return out
    return bool(res) if not isinstance(res, SymBool) else res


def _astype(a, dtype):
    dt = _np.dtype(dtype)
    raw = a.raw if isinstance(a, SArr) else _np.asarray(a, dtype=object)
    if dt.kind == "f":
        out = _np.empty(raw.shape, dtype=object)
        of = out.reshape(-1)
        for i, x in enumerate(raw.reshape(-1)):
            of[i] = SymReal(z3.ToReal(x.t)) if isinstance(x, SymInt) else (float(x) if not isinstance(x, Sym) else x)
        r = out.view(SArr)
        r._ldt = dt
        return r
    if dt.kind in "iu":
        out = _np.empty(raw.shape, dtype=dt)
        of = out.reshape(-1)
        for i, x in enumerate(raw.reshape(-1)):
            if isinstance(x, SymReal):
                # C-style truncation toward zero
                x = (x >= 0).ite(x.floor(), x.ceil())
            of[i] = int(x)
        return out
    if dt.kind == "b":
        out = _np.empty(raw.shape, dtype=bool)
        of = out.reshape(-1)
        for i, x in enumerate(raw.reshape(-1)):
            of[i] = bool(x != 0) if isinstance(x, E.SymNum) else bool(x)
        return out
    if dt == object:
        return raw.copy()
    raise E.HarnessError(f"astype({dt}) on a symbolic array")


def sarr(data, ldt=_F32) -> SArr:
    return SArr(data, ldt)


# --------------------------------------------------------------------------- function handlers

_FUNCS: dict = {}
_UFUNCS: dict = {}
_CMP = {_np.less, _np.less_equal, _np.greater, _np.greater_equal, _np.equal, _np.not_equal}


def _implements(*funcs):
    def deco(f):
        for fn in funcs:
            _FUNCS[fn] = f
        return f

    return deco


def _uimplements(*ufs):
    def deco(f):
        for u in ufs:
            _UFUNCS[u] = f
        return f

    return deco


def _elementwise(fn, a, ldt=None):
    raw = _strip(a)
    if isinstance(raw, _np.ndarray):
        out = _np.empty(raw.shape, dtype=object)
        of = out.reshape(-1)
        for i, x in enumerate(raw.reshape(-1)):
            of[i] = fn(x)
        return _rewrap(out, ldt or (a._ldt if isinstance(a, SArr) else _F64))
    return fn(raw)


def _as_real(x):
    if isinstance(x, SymReal):
        return x
    if isinstance(x, SymInt):
        return SymReal(z3.ToReal(x.t))
    return SymReal(E.realval(x))


@_uimplements(_np.sqrt)
def _sqrt(a, **k):
    return _elementwise(lambda x: _as_real(x).sqrt() if isinstance(x, Sym) else _np.sqrt(x), a)


@_uimplements(_np.cos)
def _cos(a, **k):
    return _elementwise(lambda x: x.cos() if isinstance(x, Sym) else _lift_trig(x)[0], a)


@_uimplements(_np.sin)
def _sin(a, **k):
    return _elementwise(lambda x: x.sin() if isinstance(x, Sym) else _lift_trig(x)[1], a)


def _lift_trig(x):
    if x == 0:
        return 1.0, 0.0
    raise E.OutsideClaim("cos/sin of a concrete non-zero angle")


@_uimplements(_np.arccos)
def _arccos(a, **k):
    return _elementwise(lambda x: _as_real(x).arccos(), a)


@_uimplements(_np.degrees, _np.rad2deg)
def _degrees(a, **k):
    return _elementwise(lambda x: _as_real(x).degrees(), a)


@_uimplements(_np.floor)
def _floor(a, **k):
    return _elementwise(lambda x: SymReal(z3.ToReal(_as_real(x).floor().t)) if isinstance(x, Sym) else _np.floor(x), a)


@_uimplements(_np.ceil)
def _ceil(a, **k):
    return _elementwise(lambda x: SymReal(z3.ToReal(_as_real(x).ceil().t)) if isinstance(x, Sym) else _np.ceil(x), a)


@_uimplements(_np.isfinite)
def _isfinite(a, **k):
    raw = _strip(a)
    return _np.ones(_np.shape(raw), dtype=bool)


@_uimplements(_np.isnan, _np.isinf)
def _isnan(a, **k):
    raw = _strip(a)
    return _np.zeros(_np.shape(raw), dtype=bool)


def norm(x, ord=None, axis=None, keepdims=False):
    if ord not in (None, 2):
        raise E.HarnessError("only the 2-norm is modelled")
    raw = _np.asarray(_strip(x), dtype=object)
    ldt = x._ldt if isinstance(x, SArr) else _F64
    sq = raw * raw
    if axis is None:
        s = sq.sum()
        r = _as_real(s).sqrt() if isinstance(s, Sym) else _np.float64(_np.sqrt(float(s)))
        if keepdims:
            o = _np.empty((1,) * raw.ndim, dtype=object)
            o.reshape(-1)[0] = r
            return _rewrap(o, ldt)
        return r
    s = sq.sum(axis=axis, keepdims=keepdims)
    return _elementwise(lambda v: _as_real(v).sqrt() if isinstance(v, Sym) else _np.float64(_np.sqrt(float(v))), s, ldt)


_FUNCS[_np.linalg.norm] = norm


@_implements(_np.isclose)
def isclose(a, b, rtol=1e-05, atol=1e-08, equal_nan=False):
    ra, rb = _np.broadcast_arrays(_np.asarray(_strip(a), dtype=object), _np.asarray(_strip(b), dtype=object))
    out = _np.empty(ra.shape, dtype=bool)
    of = out.reshape(-1)
    for i, (x, y) in enumerate(zip(ra.reshape(-1), rb.reshape(-1))):
        of[i] = bool(abs(x - y) <= atol + rtol * abs(y))
    return out if out.ndim else bool(out)


@_implements(_np.allclose)
def allclose(a, b, rtol=1e-05, atol=1e-08, equal_nan=False):
    return bool(_np.all(isclose(a, b, rtol=rtol, atol=atol)))


@_implements(_np.argmin)
def argmin(a, axis=None, **k):
    raw = _np.asarray(_strip(a), dtype=object)
    if axis is not None:
        return _np.apply_along_axis(lambda v: argmin(v), axis, raw).astype(_np.intp)
    flat = raw.reshape(-1)
    best = 0
    for i in range(1, len(flat)):
        if bool(flat[i] < flat[best]):
            best = i
    return best


@_implements(_np.argmax)
def argmax(a, axis=None, **k):
    raw = _np.asarray(_strip(a), dtype=object)
    if axis is not None:
        return _np.apply_along_axis(lambda v: argmax(v), axis, raw).astype(_np.intp)
    flat = raw.reshape(-1)
    best = 0
    for i in range(1, len(flat)):
        if bool(flat[i] > flat[best]):
            best = i
    return best


def _reduce_cmp(a, axis, keepdims, better):
    raw = _np.asarray(_strip(a), dtype=object)
    ldt = a._ldt if isinstance(a, SArr) else _F64

    merge = getattr(ctx().opts, "merge_minmax", False) if E._CTX is not None else False

    def red(v):
        best = v[0]
        for x in v[1:]:
            cnd = better(x, best)
            if merge and isinstance(cnd, SymBool):
                best = cnd.ite(x, best)  # value-level min/max as an if-then-else term: no fork
            elif bool(cnd):
                best = x
        return best

    if axis is None:
        r = red(list(raw.reshape(-1)))
        return r
    moved = _np.moveaxis(raw, axis, -1)
    out = _np.empty(moved.shape[:-1], dtype=object)
    for idx in _np.ndindex(*moved.shape[:-1]):
        out[idx] = red(list(moved[idx]))
    if keepdims:
        out = _np.expand_dims(out, axis)
    return _rewrap(out, ldt)


@_implements(_np.min, _np.amin)
def amin(a, axis=None, out=None, keepdims=False, **k):
    return _reduce_cmp(a, axis, keepdims, lambda x, b: x < b)


@_implements(_np.max, _np.amax)
def amax(a, axis=None, out=None, keepdims=False, **k):
    return _reduce_cmp(a, axis, keepdims, lambda x, b: x > b)


@_implements(_np.clip)
def clip(a, a_min=None, a_max=None, **k):
    merge = getattr(ctx().opts, "merge_clip", False) if E._CTX is not None else False

    def f(x):
        if merge and isinstance(x, Sym):
            # value-level clip as an if-then-else term: no fork (the two saturated cases stay inside the term)
            if a_min is not None:
                x = (x < a_min).ite(a_min, x)
            if a_max is not None:
                x = (x > a_max).ite(a_max, x)
            return x
        if a_min is not None and bool(x < a_min):
            return a_min
        if a_max is not None and bool(x > a_max):
            return a_max
        return x

    return _elementwise(f, a)


@_implements(_np.interp)
def interp(x, xp, fp, left=None, right=None, period=None):
    xs = _np.asarray(_strip(x), dtype=object)
    xpl = list(_np.asarray(_strip(xp), dtype=object).reshape(-1))
    fpl = list(_np.asarray(_strip(fp), dtype=object).reshape(-1))
    if len(xpl) != len(fpl) or not xpl:
        raise ValueError("fp and xp are not of the same length")
    ldt = _common_ldt((x, xp, fp))

    def one(v):
        # numpy semantics for non-decreasing xp (binary search for the last j with xp[j] <= v)
        if bool(v < xpl[0]):
            return fpl[0] if left is None else left
        if bool(v >= xpl[-1]):
            if bool(v > xpl[-1]):
                return fpl[-1] if right is None else right
            return fpl[-1]
        j = 0
        for i in range(len(xpl) - 1):
            if bool(xpl[i + 1] <= v):
                j = i + 1
            else:
                break
        # here xp[j] <= v < xp[j+1]
        if bool(xpl[j] == v):
            return fpl[j]
        slope = (fpl[j + 1] - fpl[j]) / (xpl[j + 1] - xpl[j])
        return slope * (v - xpl[j]) + fpl[j]

    if xs.ndim == 0:
        return one(xs[()])
    out = _np.empty(xs.shape, dtype=object)
    of = out.reshape(-1)
    for i, v in enumerate(xs.reshape(-1)):
        of[i] = one(v)
    return _rewrap(out, ldt)


@_implements(_np.linspace)
def linspace(start, stop, num=50, endpoint=True, retstep=False, dtype=None, axis=0):
    num = int(num)
    if not endpoint or retstep:
        raise E.HarnessError("linspace options not modelled")
    if num == 1:
        vals = [start]
    else:
        step = (stop - start) / (num - 1)
        vals = [start + step * i for i in range(num - 1)] + [stop]
    return SArr(vals, _F64)


@_implements(_np.where)
def where(cond, *xy):
    c = _strip(cond)
    if isinstance(c, _np.ndarray) and c.dtype == object:
        c = _bool_result(c)
    if not xy:
        return _np.where(c)
    ldt = _common_ldt(xy)
    x, y = _strip(xy)
    if not isinstance(x, _np.ndarray):
        x = _obj_array(x)
    if not isinstance(y, _np.ndarray):
        y = _obj_array(y)
    return _rewrap(_np.where(c, x.astype(object), y.astype(object)), ldt)


@_implements(_np.count_nonzero)
def count_nonzero(a, axis=None, **k):
    raw = _strip(a)
    if isinstance(raw, _np.ndarray) and raw.dtype == object:
        b = _np.empty(raw.shape, dtype=bool)
        bf = b.reshape(-1)
        for i, x in enumerate(raw.reshape(-1)):
            bf[i] = bool(x != 0) if isinstance(x, E.SymNum) else bool(x)
        raw = b
    return _np.count_nonzero(raw, axis=axis, **k)


@_implements(_np.cross)
def cross(a, b, **k):
    ra, rb = _np.asarray(_strip(a), dtype=object), _np.asarray(_strip(b), dtype=object)
    ldt = _common_ldt((a, b))
    if ra.shape[-1] == 3 and rb.shape[-1] == 3 and ra.ndim == 1 and rb.ndim == 1:
        return SArr([ra[1] * rb[2] - ra[2] * rb[1], ra[2] * rb[0] - ra[0] * rb[2], ra[0] * rb[1] - ra[1] * rb[0]], ldt)
    if ra.shape[-1] == 2 and rb.shape[-1] == 2 and ra.ndim == 1 and rb.ndim == 1:
        return ra[0] * rb[1] - ra[1] * rb[0]
    raise E.HarnessError("cross: only 1-d vectors are modelled")


@_implements(_np.sort)
def sort(a, axis=-1, **k):
    raw = _np.asarray(_strip(a), dtype=object)
    if raw.ndim != 1:
        raise E.HarnessError("sort: only 1-d")
    vals = list(raw)
    # insertion sort with forking comparisons
    for i in range(1, len(vals)):
        j = i
        while j > 0 and bool(vals[j] < vals[j - 1]):
            vals[j], vals[j - 1] = vals[j - 1], vals[j]
            j -= 1
    return SArr(vals, a._ldt if isinstance(a, SArr) else _F64)


@_implements(_np.unravel_index)
def unravel_index(indices, shape, **k):
    return _np.unravel_index._implementation(int(indices), shape, **k)


@_implements(_np.array_equal)
def array_equal(a, b, **k):
    ra, rb = _np.asarray(_strip(a), dtype=object), _np.asarray(_strip(b), dtype=object)
    if ra.shape != rb.shape:
        return False
    return builtins_all(bool(x == y) for x, y in zip(ra.reshape(-1), rb.reshape(-1)))


# --------------------------------------------------------------------------- proxy module


def _is_float_dt(dtype) -> bool:
    return dtype is not None and _np.dtype(dtype).kind == "f"


class NpProxy(types.ModuleType):
    """Stands for `numpy` inside the analysed modules."""

    def __init__(self):
        super().__init__("numpy_proxy")
        self.linalg = _LinalgProxy()

    def __getattr__(self, name):
        return getattr(_np, name)

    @property
    def pi(self):
        return ctx().pi() if E._CTX is not None else _np.pi

    # creation ---------------------------------------------------------------
    def array(self, obj, dtype=None, *a, copy=True, **k):
        if isinstance(obj, SArr):
            return _astype(obj, dtype) if dtype is not None else obj.copy()
        if has_sym(obj):
            raw = _obj_array(_strip(obj))
            ldt = _np.dtype(dtype) if dtype is not None else _infer_ldt(obj)
            return _astype(raw, ldt)
        return _np.array(obj, dtype, *a, copy=copy, **k)

    def asarray(self, obj, dtype=None, *a, **k):
        if isinstance(obj, SArr) and dtype is None:
            return obj
        if isinstance(obj, SArr) or has_sym(obj):
            return self.array(obj, dtype=dtype)
        return _np.asarray(obj, dtype, *a, **k)

    def _filled(self, shape, value, dtype, default=_F64):
        dt = _np.dtype(dtype) if dtype is not None else default
        if E._CTX is not None and dt.kind == "f":
            out = _np.empty(shape, dtype=object)
            out.fill(value)
            r = out.view(SArr)
            r._ldt = dt
            return r
        return None

    def zeros(self, shape, dtype=None, *a, **k):
        r = self._filled(shape, 0.0, dtype)
        return r if r is not None else _np.zeros(shape, dtype, *a, **k)

    def ones(self, shape, dtype=None, *a, **k):
        r = self._filled(shape, 1.0, dtype)
        return r if r is not None else _np.ones(shape, dtype, *a, **k)

    def empty(self, shape, dtype=None, *a, **k):
        r = self._filled(shape, 0.0, dtype)
        return r if r is not None else _np.empty(shape, dtype, *a, **k)

    def full(self, shape, fill_value, dtype=None, *a, **k):
        if isinstance(fill_value, Sym) or (E._CTX is not None and (_is_float_dt(dtype) or (dtype is None and isinstance(fill_value, float)))):
            if isinstance(fill_value, SymInt) or (dtype is not None and _np.dtype(dtype).kind in "iu"):
                return _np.full(shape, int(fill_value), dtype, *a, **k)
            out = _np.empty(shape, dtype=object)
            out.fill(fill_value)
            r = out.view(SArr)
            r._ldt = _np.dtype(dtype) if dtype is not None else _F64
            return r
        return _np.full(shape, fill_value, dtype, *a, **k)

    def identity(self, n, dtype=None, **k):
        if E._CTX is not None and (dtype is None or _is_float_dt(dtype)):
            out = _np.empty((n, n), dtype=object)
            out.fill(0.0)
            for i in range(n):
                out[i, i] = 1.0
            r = out.view(SArr)
            r._ldt = _np.dtype(dtype) if dtype is not None else _F64
            return r
        return _np.identity(n, dtype, **k)

    def arange(self, *args, **kwargs):
        if has_sym(args) or has_sym(list(kwargs.values())):
            dtype = kwargs.pop("dtype", None)
            if len(args) == 1:
                start, stop, step = 0, args[0], 1
            elif len(args) == 2:
                start, stop, step = args[0], args[1], 1
            else:
                start, stop, step = args[:3]
            if all(isinstance(v, (int, SymInt, _np.integer)) for v in (start, stop, step)):
                return _np.arange(int(start), int(stop), int(step), dtype=dtype)
            # real-valued arange: length = ceil((stop - start) / step), forked
            q = _as_real((stop - start) / step)
            if isinstance(q, SymReal) and E._CTX is not None:
                q = ctx().simp(q, min_size=4)  # certified simplification: (rmax - rmax/(k+1)) / (rmax/(k+1)) -> k
            n = q.ceil()
            n = int(n)
            n = max(n, 0)
            return SArr([start + step * i for i in range(n)], _F64)
        return _np.arange(*args, **kwargs)

    def linspace(self, start, stop, num=50, **k):
        if has_sym((start, stop)):
            return linspace(start, stop, num, **k)
        return _np.linspace(start, stop, num, **k)

    def zeros_like(self, a, dtype=None, **k):
        if isinstance(a, SArr) and dtype is None:
            return self.zeros(a.shape, a._ldt)
        return _np.zeros_like(_strip(a), dtype, **k)

    def ones_like(self, a, dtype=None, **k):
        if isinstance(a, SArr) and dtype is None:
            return self.ones(a.shape, a._ldt)
        return _np.ones_like(_strip(a), dtype, **k)

    def full_like(self, a, fill_value, dtype=None, **k):
        if isinstance(a, SArr) and dtype is None:
            return self.full(a.shape, fill_value, a._ldt)
        if isinstance(fill_value, Sym):
            return self.full(_np.shape(a), fill_value, dtype)
        return _np.full_like(a, fill_value, dtype, **k)

    # functions that must see bare Sym scalars --------------------------------
    def sqrt(self, x, *a, **k):
        if isinstance(x, Sym):
            return _as_real(x).sqrt()
        return _np.sqrt(x, *a, **k)

    def cos(self, x, *a, **k):
        if isinstance(x, Sym):
            return x.cos()
        return _np.cos(x, *a, **k)

    def sin(self, x, *a, **k):
        if isinstance(x, Sym):
            return x.sin()
        return _np.sin(x, *a, **k)

    def arccos(self, x, *a, **k):
        if isinstance(x, Sym):
            return _as_real(x).arccos()
        return _np.arccos(x, *a, **k)

    def degrees(self, x, *a, **k):
        if isinstance(x, Sym):
            return _as_real(x).degrees()
        return _np.degrees(x, *a, **k)

    def ceil(self, x, *a, **k):
        if isinstance(x, Sym):
            return SymReal(z3.ToReal(_as_real(x).ceil().t))
        return _np.ceil(x, *a, **k)

    def floor(self, x, *a, **k):
        if isinstance(x, Sym):
            return SymReal(z3.ToReal(_as_real(x).floor().t))
        return _np.floor(x, *a, **k)

    def clip(self, a, a_min=None, a_max=None, **k):
        if isinstance(a, Sym) or has_sym((a_min, a_max)):
            if isinstance(a, (Sym, int, float)):
                return clip(_obj_array(a), a_min, a_max)
            return clip(a, a_min, a_max)
        return _np.clip(a, a_min, a_max, **k)

    def allclose(self, a, b, **k):
        if has_sym((a, b)):
            return allclose(a, b, **k)
        return _np.allclose(a, b, **k)

    def isclose(self, a, b, **k):
        if has_sym((a, b)):
            return isclose(a, b, **k)
        return _np.isclose(a, b, **k)

    def dot(self, a, b, **k):
        if isinstance(a, Sym) or isinstance(b, Sym):
            return a * b
        return _np.dot(a, b, **k)

    def abs(self, x, *a, **k):
        if isinstance(x, Sym):
            return abs(x)
        return _np.abs(x, *a, **k)

    absolute = abs

    def issubdtype(self, a, b):
        return _np.issubdtype(a, b)

    def interp(self, x, xp, fp, **k):
        if has_sym((x, xp, fp)):
            return interp(x, xp, fp, **k)
        return _np.interp(x, xp, fp, **k)

    def count_nonzero(self, a, *args, **k):
        return _np.count_nonzero(a, *args, **k)

    def cross(self, a, b, **k):
        if has_sym((a, b)):
            return cross(a, b, **k)
        return _np.cross(a, b, **k)

    def insert(self, arr, obj, values, axis=None):
        if has_sym((arr, values)):
            raw = list(_np.asarray(_strip(arr), dtype=object).reshape(-1))
            raw.insert(int(obj), values)
            return SArr(raw, _common_ldt((arr,)))
        return _np.insert(arr, obj, values, axis)

    def concatenate(self, arrays, axis=0, **k):
        if has_sym(list(arrays)):
            ldt = _common_ldt(arrays)
            raws = [_np.asarray(_strip(a), dtype=object) if not isinstance(a, _np.ndarray) or isinstance(a, SArr) else a.astype(object) for a in arrays]
            raws = [r if r.ndim else r for r in raws]
            return _rewrap(_np.concatenate(raws, axis=axis), ldt)
        return _np.concatenate(arrays, axis=axis, **k)

    def stack(self, arrays, axis=0, **k):
        arrays = list(arrays)
        if has_sym(arrays):
            ldt = _common_ldt(arrays)
            raws = [_obj_array(_strip(a)) if not isinstance(a, _np.ndarray) else _np.asarray(_strip(a), dtype=object) for a in arrays]
            return _rewrap(_np.stack(raws, axis=axis), ldt)
        return _np.stack(arrays, axis=axis, **k)

    def reshape(self, a, shape, **k):
        if has_sym(a):
            raw = _obj_array(_strip(a)) if not isinstance(a, _np.ndarray) else _np.asarray(_strip(a), dtype=object)
            return _rewrap(raw.reshape(shape), _common_ldt((a,) if not isinstance(a, (list, tuple)) else a))
        return _np.reshape(a, shape, **k)

    def sum(self, a, *args, **k):
        if isinstance(a, (list, tuple)) and has_sym(a):
            a = SArr(a)
        return _np.sum(a, *args, **k)

    def argmax(self, a, *args, **k):
        if isinstance(a, (list, tuple)) and has_sym(a):
            return argmax(_obj_array(a))
        return _np.argmax(a, *args, **k)

    def argmin(self, a, *args, **k):
        if isinstance(a, (list, tuple)) and has_sym(a):
            return argmin(_obj_array(a))
        return _np.argmin(a, *args, **k)

    def min(self, a, *args, **k):
        if isinstance(a, (list, tuple)) and has_sym(a):
            a = SArr(a)
        return _np.min(a, *args, **k)

    def max(self, a, *args, **k):
        if isinstance(a, (list, tuple)) and has_sym(a):
            a = SArr(a)
        return _np.max(a, *args, **k)


class _LinalgProxy:
    def __getattr__(self, name):
        return getattr(_np.linalg, name)

    def norm(self, x, ord=None, axis=None, keepdims=False):
        if isinstance(x, SArr) or has_sym(x):
            if isinstance(x, (list, tuple)):
                x = SArr(x)
            return norm(x, ord, axis, keepdims)
        return _np.linalg.norm(x, ord, axis, keepdims)


def _infer_ldt(obj):
    for x in _flatten([obj] if not isinstance(obj, (list, tuple)) else obj):
        if isinstance(x, SArr):
            return x._ldt
        if isinstance(x, SymReal) or isinstance(x, float):
            return _F64
    # only SymInt / ints
    return _np.dtype(_np.int64)


NP = NpProxy()


def install(module_names=None):
    """Rebind the global name `np` of the imported swcgeom modules to the proxy."""
    import sys

    n = 0
    for name, mod in list(sys.modules.items()):
        if not name.startswith("swcgeom") or mod is None:
            continue
        if module_names is not None and name not in module_names:
            continue
        if getattr(mod, "np", None) is _np:
            mod.np = NP
            n += 1
    return n


def uninstall():
    import sys

    for name, mod in list(sys.modules.items()):
        if name.startswith("swcgeom") and mod is not None and getattr(mod, "np", None) is NP:
            mod.np = _np
