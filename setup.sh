#!/bin/sh
# offline: overlay venv on top of /venv with z3-solver, cvc5, sympy, jsonschema from the wheelhouse
set -e
cd "$(dirname "$0")"
rm -rf .venv
/venv/bin/python -m venv .venv
echo "import site; site.addsitedir('/venv/lib/python3.12/site-packages')" > .venv/lib/python3.12/site-packages/_base.pth
PIP_NO_INDEX=1 .venv/bin/pip install -q --no-index --find-links /opt/veriftools/wheels z3-solver cvc5 sympy jsonschema
.venv/bin/python -c "import z3, sympy, jsonschema, swcgeom, numpy; print('setup ok', z3.get_version_string())"
