#!/usr/bin/env python3
"""Regenerates MANIFEST.json from the table below (run by hand when a check is added)."""
import json

CHECKS = {}  # filled by register()
NOT_YET = {}

def register(pid, text, note, technique, design_ref):
    CHECKS[pid] = dict(property_id=pid, quick_cmd=f"./vcheck {pid} --tier quick", thorough_cmd=f"./vcheck {pid} --tier thorough",
                       evidence_file=f"evidence/{pid}.json", replay_cmd_template="./vcheck --replay {path}", engine="symv",
                       level_claimed=dict(category="model_checking", text=text, design_ref=design_ref), level_note=note, technique=technique)

TECH_E1 = "bounded symbolic execution of the real Python/numpy functions (own path-forking engine over z3: Int/Real/NRA), obligations discharged as SMT queries pc & not(phi) = unsat; counterexamples replayed on the real code"

import importlib.util, os
spec = importlib.util.spec_from_file_location("manifest_table", os.path.join(os.path.dirname(__file__), "manifest_table.py"))
tbl = importlib.util.module_from_spec(spec); spec.loader.exec_module(tbl)
tbl.fill(register, TECH_E1)

props = [json.loads(l)["id"] for l in open(os.path.join(os.path.dirname(__file__), "properties.jsonl"))]
m = {"version": 1,
     "setup_cmd": "sh ./setup.sh",
     "hooks": {"guard": "SWCGEOM_VERIF", "enable": "no source hooks exist: the checks import swcgeom from /repo and rebind module globals (np, sdflit names, os, ...) of the imported modules inside the check process; SWCGEOM_VERIF=1 is exported by ./vcheck for completeness",
               "baseline_off_cmd": "cd /repo && /venv/bin/python -m pytest -q -p no:cacheprovider --timeout=900", "source_commits": [], "add_only": True},
     "engines": [{"name": "symv", "path": "symv/", "serves_properties": sorted(CHECKS), "kind_free_text": "path-forking symbolic executor for Python/numpy on z3 (E1) + regular-language queries on the real compiled patterns (E2)"}],
     "checks": [CHECKS[p] for p in props if p in CHECKS],
     "not_applicable": [{"property_id": p, "reason": tbl.NOT_APPLICABLE.get(p, "check not built yet (work in progress; DESIGN.md section 5 has the plan)")} for p in props if p not in CHECKS],
     "notes": "exit codes of ./vcheck: 0 all obligations discharged on every feasible path within the bounds (known findings excepted: KNOWN-FINDING lines); 1 reproduced violation (VIOLATION line); 2 inconclusive (solver unknown / cap); 3 harness error. Known findings and the list of fixed: entries are in known_findings.json (never written at run time). Seeded changes and the detection matrix: seeded/ and DESIGN.md section 13. See DESIGN.md."}
json.dump(m, open(os.path.join(os.path.dirname(__file__), "MANIFEST.json"), "w"), indent=1)
print("checks:", sorted(CHECKS))
