#!/usr/bin/env python3
"""Regenerates MANIFEST.json from the table below (run by hand when a check is added)."""
import json

CHECKS = {}  # filled by register()
# additions made after the seeded-change rounds (DESIGN 13)
EXTRA = {
 "C01": " Comment palette includes ASCII control characters that str.splitlines() would treat as line ends and a comment block that looks like a source header.",
 "C02": " Rows with 16-17 significant digits must equal the correctly rounded double of their spelling; a requested extra column must follow its row under sort_nodes=True.",
 "C04": " after_edit: traverse, re-parent a node through its handle / re-root without sorting, traverse again - the second traversal is the structural recursion over the EDITED table. Auxiliary concrete runs (not solver claims): chain of 10^5 nodes, leave-only comb of 18000 nodes.",
 "C05": " The table form carries a 64-bit integer key column (not representable in float64); the tree form carries two columns that are one array object.",
 "C06": " Removal sets are passed as list / set / ndarray / generator / filter object; to_subtree on every numbering of 4-node (5 thorough) trees incl. descendants stored before a removed ancestor.",
 "C08": " after_change: query, then re-root / sort / re-parent in place, query the resulting tree again.",
 "C09": " Histories include pid writes through tree handles; after every step a kept branch's segments are still its consecutive node pairs.",
 "C11": " remeasure: measure, scale in place or through swcgeom.transforms.Scale, measure the same / the derived object again.",
 "C12": " custom_names: trees whose coordinate / radius columns have non-default SWCNames.",
 "C14": " Levels 1-2 are re-evaluated on the same tree object after a radius was changed through a node handle.",
 "C18": " Auxiliary concrete runs (not solver claims): has_cyclic and DisjointSetUnion on 3000-node tables.",
 "C19": " Auxiliary concrete run (not a solver claim): 150 lazily loaded members, each file loaded at most once over two iterations, indexing and chaining.",
 "C20": " The same ToImageStack object renders the same tree again after a node was moved through its handle: the cones carry the new position.",
}
NOT_YET = {}

def register(pid, text, note, technique, design_ref):
    text = text + EXTRA.get(pid, "")
    CHECKS[pid] = dict(property_id=pid, quick_cmd=f"./vcheck {pid} --tier quick", thorough_cmd=f"./vcheck {pid} --tier thorough",
                       evidence_file=f"evidence/{pid}.json", replay_cmd_template="./vcheck --replay {path}", engine="symv",
                       level_claimed=dict(category="model_checking", text=text, design_ref=design_ref), level_note=note, technique=technique)

TECH_E1 = "bounded symbolic execution of the real Python/numpy functions (own path-forking engine over z3: Int/Real/NRA), obligations discharged as SMT queries pc & not(phi) = unsat; counterexamples replayed on the real code"

import importlib.util, os
spec = importlib.util.spec_from_file_location("manifest_table", os.path.join(os.path.dirname(__file__), "manifest_table.py"))
tbl = importlib.util.module_from_spec(spec); spec.loader.exec_module(tbl)
tbl.fill(register, TECH_E1)

props = [json.loads(l)["id"] for l in open(os.path.join(os.path.dirname(__file__), "properties.jsonl"))]
m = {"version": 1,
     "setup_cmd": "sh ./setup.sh",
     "hooks": {"guard": "SWCGEOM_VERIF", "enable": "no source hooks exist: the checks import swcgeom from /repo and rebind module globals (np, sdflit names, os, ...) of the imported modules inside the check process; SWCGEOM_VERIF=1 is exported by ./vcheck for completeness",
               "baseline_off_cmd": "cd /repo && /venv/bin/python -m pytest -q -p no:cacheprovider --timeout=900", "source_commits": [], "add_only": True},
     "engines": [{"name": "symv", "path": "symv/", "serves_properties": sorted(CHECKS), "kind_free_text": "path-forking symbolic executor for Python/numpy on z3 (E1) + regular-language queries on the real compiled patterns (E2)"}],
     "checks": [CHECKS[p] for p in props if p in CHECKS],
     "not_applicable": [{"property_id": p, "reason": tbl.NOT_APPLICABLE.get(p, "check not built yet (work in progress; DESIGN.md section 5 has the plan)")} for p in props if p not in CHECKS],
     "notes": "exit codes of ./vcheck: 0 all obligations discharged on every feasible path within the bounds (known findings excepted: KNOWN-FINDING lines); 1 reproduced violation (VIOLATION line); 2 inconclusive (solver unknown / cap); 3 harness error. Known findings and the list of fixed: entries are in known_findings.json (never written at run time). Seeded changes and the detection matrix: seeded/ and DESIGN.md section 13. See DESIGN.md."}
json.dump(m, open(os.path.join(os.path.dirname(__file__), "MANIFEST.json"), "w"), indent=1)
print("checks:", sorted(CHECKS))
