NOT_APPLICABLE = {}

NOTE = "floats modelled as reals (IEEE rounding outside the claim); bounded in node count as stated; z3 5.1 trusted; every counterexample is replayed on the unpatched real code before it is reported"


def fill(register, E1):
    register("C04",
             "Every parent table rooted at node 0 (any numbering) with n<=4 (quick) / 5-6 (thorough) nodes, every start node and the three entry points (swc_utils.traverse, Tree.traverse, Tree.Node.traverse) are executed symbolically with the enter/leave callbacks modelled as UNINTERPRETED functions, so the verdict 'result == structural recursion term, each node entered once after its parent with the parent's value, left once after its children with exactly their values, nothing outside the subtree visited' holds for all callbacks, not the few a test can pass. The 10^5-deep chain clause is an auxiliary concrete run, not a solver claim.",
             NOTE + "; callbacks are pure (uninterpreted) functions of their arguments", E1, "5/C04")
    register("C05",
             "sort_nodes_impl / sort_nodes_ / sort_nodes / sort_tree / read_swc(sort_nodes=True) / is_sorted are executed on every single-rooted table within the bound (n<=4 quick / 5 thorough rows, root row anywhere, injective non-contiguous id labelling, symbolic real columns incl. extra columns); z3 enumerates the labellings the code can distinguish and proves per path that the returned map is a bijection preserving parent relation and every column, parents precede children, root 0, and that a second sort is the identity up to sibling order.",
             NOTE, E1, "5/C05")
    register("C06",
             "get_subtree / to_subtree / cut_tree / CutByType (+Axon/Dendrite) / CutByFurcationOrder / CutShortTipBranch / get_neurites / get_dendrites / Node.subtree are executed on every tree with n<=4-5 (quick) / 5-6 (thorough) nodes under every numbering, every start node, every removal set, every callback verdict pattern (fresh symbolic booleans), symbolic real coordinates and threshold; per path the kept set, attributes (symbolic equality), parent relation, root and id mapping are compared with a set-semantics oracle.",
             NOTE + "; removal of the root is outside the claim", E1, "5/C06")
    register("C08",
             "Tree.get_branches/get_paths/get_tips/get_furcations, Node.is_tip/is_furcation/branch, BranchTree.from_tree, ToBranchTree and ToLongestPath are executed on every parent table with root 0 on n<=5 (quick) / 6 (thorough) nodes with symbolic real attributes; the edge partition, branch end conditions, one path per tip, branch-tree node set / parents / remembered branches are decided per path, and maximality of the longest path against every root-to-tip path is an NRA query over sqrt sums.",
             NOTE, E1, "5/C08")
    register("C12",
             "Every feasible path of the real Translate/TranslateOrigin/Scale/Rotate*/AffineTransform code and of the matrix builders is executed symbolically for trees of n<=2 (quick) / 3 (thorough) nodes with real-valued coordinates, parameters, any angle (cos,sin) and any unit axis; the affine-map obligations (centre fixed, isometry, stated angle right-handed, inverse restores, pid/type/r/extra untouched, input untouched) are decided by z3 NRA for the continuum of values, which tests with a handful of numbers cannot do. Bounded in node count only; the maps act node-wise.",
             NOTE + "; unit axis assumed for Rotate; formatting of symbolic numbers in repr strings stubbed",
             E1, "5/C12")
    register("C18",
             "(a) DisjointSetUnion: ONE union/find/is_same_set from an ARBITRARY valid state (every parent-pointer forest on n<=4/5 elements, ranks symbolic integers constrained only by the representation invariant) re-establishes the invariant and updates the partition exactly as the merge of two classes - an inductive step that covers histories of any length - plus every history of <=3-4 operations from __init__. (b) is_single_root / has_cyclic / is_sorted / is_bifurcate on EVERY function {0..n-1} -> {none}+{0..n-1} (forests, cycles, self-loops; n<=4 quick / 5 thorough; id bases 0/1/5) against naive graph search. (c) mark_roots_as_somas / link_roots_to_nearest / reset_index and read_swc(fix_roots=off|somas|nearest) on every forest with >=2 roots, with symbolic real coordinates for the nearest-node choice (decided by z3 over sqrt distances).",
             NOTE + "; general position assumed for 'nearest'; has_cyclic/is_sorted on their documented domain", E1, "5/C18")
    register("C19",
             "ChainTrees/LazyLoadingTrees/NestTrees/Population/Populations/PopulationTransform are executed with the index key a SYMBOLIC integer (in [-L-2, L+1]) and member lengths 0..3 forked, so the binary search over the prefix sums and the negative-index arithmetic are decided by z3 for every key, from list- and generator-built chains; Population.from_swc / Populations.from_swc run on every fake directory layout of a palette (nested, empty, differing file sets, differing enumeration order) followed by every history of 2-3 operations (index, slice, iterate, map, len), with a load recorder proving each file is loaded at most once and only on demand.",
             "os.walk/os.path.exists, Tree.from_swc and ProcessPoolExecutor inside swcgeom.core.population are stubs (fake listing, load recorder, sequential pool); real file systems / process pools / load failures outside the claim; z3 5.1 trusted; counterexamples replayed on the real code", E1, "5/C19")

