NOT_APPLICABLE = {}


def fill(register, E1):
    register("C12",
             "Every feasible path of the real Translate/TranslateOrigin/Scale/Rotate*/AffineTransform code and of the matrix builders is executed symbolically for trees of n<=2 (quick) / 3 (thorough) nodes with real-valued coordinates, parameters, any angle (cos,sin) and any unit axis; the affine-map obligations (centre fixed, isometry, stated angle right-handed, inverse restores, pid/type/r/extra untouched, input untouched) are decided by z3 NRA for the continuum of values, which tests with a handful of numbers cannot do. Bounded in node count only; the maps act node-wise.",
             "floats modelled as reals (rounding outside the claim); unit axis assumed for Rotate; z3 5.1 is trusted; formatting of symbolic numbers in repr strings stubbed",
             E1, "5/C12")
